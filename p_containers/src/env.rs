//! Case bookkeeping: selection (shard / --only / Miri leak policy), evidence counters, VIOL lines.
//! Counters are plain integers here and are turned into report entries once at the end (string handling
//! per case is what dominates under Miri).
use crate::probe;
use rust_cc::collect_cycles;
use rust_cc::state::allocated_bytes;
use std::panic::{catch_unwind, AssertUnwindSafe};
use vcommon::report::Args;
use vcommon::rng::Fnv;
use vcommon::{Json, Report};

pub const PROPERTY: &str = "C17";

#[derive(Clone, Copy)]
pub struct CaseInfo<'a> {
    pub container: &'a str,
    pub kind: &'static str,
    pub leaves: usize,
    /// hits | cycle | survive | finalize | bhits | bcycle | bfinalize | weaktarget | weakself | cleanabletarget
    pub mode: &'static str,
    pub pos: Option<usize>,
    /// "" | shared | mut
    pub borrow: &'static str,
}

impl CaseInfo<'_> {
    pub fn id(&self) -> String {
        let mut s = format!("{}/{}", self.container, self.mode);
        if !self.borrow.is_empty() {
            s.push('-');
            s.push_str(self.borrow);
        }
        if let Some(p) = self.pos {
            s.push_str(&format!("/{}", p));
        }
        s
    }
    /// canonical hash: (container type name, length / arity, position, oracle mode, borrow mode)
    pub fn hash(&self) -> u64 {
        let mut h = Fnv::new();
        h.str(self.container);
        h.u64(self.leaves as u64);
        h.str(self.mode);
        h.u64(self.pos.map(|p| p as u64 + 1).unwrap_or(0));
        h.str(self.borrow);
        h.finish()
    }
    pub fn nontrivial(&self) -> bool {
        self.leaves >= 2 || (self.pos.is_some() && matches!(self.mode, "cycle" | "survive" | "bcycle"))
    }
    pub fn json(&self) -> Json {
        let mut j = Json::obj()
            .set("case", self.id())
            .set("container", self.container)
            .set("kind", self.kind)
            .set("leaves", self.leaves)
            .set("mode", self.mode);
        match self.pos {
            Some(p) => j.put("position", p),
            None => j.put("position", Json::Null),
        }
        if !self.borrow.is_empty() {
            j.put("borrow", self.borrow);
        }
        j
    }
}

#[derive(Clone, Copy)]
#[repr(usize)]
pub enum Ctr {
    LeavesChecked,
    TraceCalls,
    ContainerTraceCalls,
    Vacuous,
    FinLeaves,
    CollectorFinCalls,
    CyclesReclaimed,
    SurvivalChecks,
    BorrowedChecks,
    FinForwardChecks,
    CollectCalls,
    Pinned,
    SkippedLeaky,
    Actions,
    Count,
}

const CTR_NAMES: [&str; Ctr::Count as usize] = [
    "leaves_checked",
    "trace_calls_observed",
    "container_trace_calls_observed",
    "vacuous_cases",
    "finalize_leaves_checked",
    "collector_finalize_calls_observed",
    "cycles_reclaimed",
    "survival_checks",
    "borrowed_checks",
    "finalize_forward_checks",
    "collect_calls",
    "survivors_pinned_by_manuallydrop",
    "cases_skipped_leaky_under_miri",
    "cleaning_actions_observed",
];

pub struct Env {
    pub report: Report,
    pub only: Option<String>,
    pub shard: u64,
    pub nshards: u64,
    pub list: bool,
    pub tuple_max: usize,
    pub arr_max: usize,
    pub vec_max: usize,
    pub slice_max: usize,
    pub nest_stride: u64,
    pub nest_offset: u64,
    case_idx: u64,
    pub baseline: usize,
    pub stop: bool,
    ctr: [u64; Ctr::Count as usize],
    kinds: Vec<(&'static str, u64)>,
    modes: Vec<(&'static str, u64)>,
    sampled_modes: Vec<&'static str>,
    /// --timing: wall-clock trace of the executed cases on stderr (debugging aid, never part of a verdict)
    timing: Option<std::time::Instant>,
}

pub fn harness_error(msg: &str) -> ! {
    eprintln!("c17: internal harness error: {}", msg);
    std::process::exit(3);
}

pub fn bytes() -> usize {
    match allocated_bytes() {
        Ok(b) => b,
        Err(_) => harness_error("rust_cc::state::allocated_bytes() not accessible"),
    }
}

fn tally(v: &mut Vec<(&'static str, u64)>, k: &'static str) {
    for e in v.iter_mut() {
        if e.0 == k {
            e.1 += 1;
            return;
        }
    }
    v.push((k, 1));
}

impl Env {
    pub fn new(args: &Args) -> Env {
        let mut report = Report::new();
        report.max_samples = 8;
        Env {
            report,
            only: args.get("--only").map(|s| s.to_string()),
            shard: args.u64("--shard", 0),
            nshards: args.u64("--nshards", 1).max(1),
            list: args.flag("--list"),
            tuple_max: args.usize("--tuple-max", 12),
            arr_max: args.usize("--arr-max", 32),
            vec_max: args.usize("--vec-max", 40),
            slice_max: args.usize("--slice-max", 40),
            nest_stride: args.u64("--nest-stride", 1).max(1),
            nest_offset: args.u64("--nest-offset", 0),
            case_idx: 0,
            baseline: 0,
            stop: false,
            ctr: [0; Ctr::Count as usize],
            kinds: Vec::new(),
            modes: Vec::new(),
            sampled_modes: Vec::new(),
            timing: if args.flag("--timing") { Some(std::time::Instant::now()) } else { None },
        }
    }

    pub fn add(&mut self, c: Ctr, n: u64) {
        self.ctr[c as usize] += n;
    }

    /// Could a case of this container be selected at all? (only meaningful with --only)
    pub fn wants_container(&self, name: &str) -> bool {
        match &self.only {
            Some(o) => o.starts_with(name) && o[name.len()..].starts_with('/'),
            None => true,
        }
    }

    /// Every enumerated case passes here exactly once, selected or not, so that case indices (and thus
    /// shards) are the same in every process.
    pub fn select(&mut self, ci: &CaseInfo) -> bool {
        let idx = self.case_idx;
        self.case_idx += 1;
        if self.stop {
            return false;
        }
        if self.list {
            println!("CASE {} {}", idx, ci.id());
            return false;
        }
        match &self.only {
            Some(o) => *o == ci.id(),
            None => idx % self.nshards == self.shard,
        }
    }

    /// A selected case that leaks by design (see probe.rs: content of a ManuallyDrop that still owns
    /// something when its owner dies is never released) is not run under Miri, whose leak checker would
    /// (rightly) report it; that says nothing about C17.
    pub fn skip_leaky(&mut self, leaky: bool) -> bool {
        if leaky && cfg!(miri) {
            self.add(Ctr::SkippedLeaky, 1);
            return true;
        }
        false
    }

    pub fn begin(&mut self, ci: &CaseInfo) {
        if let Some(t0) = self.timing {
            eprintln!("T {:?} begin {}", t0.elapsed(), ci.id());
        }
        probe::reset(true);
        self.baseline = bytes();
        self.report.evaluations += 1;
        tally(&mut self.kinds, ci.kind);
        tally(&mut self.modes, ci.mode);
        if ci.kind == "nest" {
            self.report.set_add("nestings", ci.container);
        }
        if ci.nontrivial() {
            self.report.nontrivial(ci.hash());
        }
    }

    pub fn viol(&mut self, ci: &CaseInfo, oracle: &str, pos: Option<usize>, detail: String) {
        let p = match pos {
            Some(p) => format!("pos{}", p),
            None => "all".to_string(),
        };
        let sig = format!("{}:{}:{}:{}", PROPERTY, oracle, ci.container, p);
        let detail = format!("case {}: {}", ci.id(), detail);
        let replay = vec!["--only".to_string(), ci.id()];
        self.report.viol(PROPERTY, oracle, &sig, &detail, &replay);
        self.report.count(&format!("oracle_fired_{}", oracle), 1);
    }

    /// One sample per mode (first executed non-trivial case of that mode in this process).
    pub fn sample(&mut self, ci: &CaseInfo, extra: impl FnOnce() -> Json) {
        if !ci.nontrivial() || self.sampled_modes.contains(&ci.mode) {
            return;
        }
        self.sampled_modes.push(ci.mode);
        self.report.sample(ci.json().set("observed", extra()));
    }

    /// `collect_cycles()` up to 4 times until `done()`. A panic escaping the collector is reported and
    /// stops the shard (the collector's state is not trusted afterwards).
    pub fn collect_until(&mut self, ci: &CaseInfo, done: &dyn Fn() -> bool) -> u32 {
        for k in 1..=4u32 {
            self.add(Ctr::CollectCalls, 1);
            let r = catch_unwind(AssertUnwindSafe(collect_cycles));
            if r.is_err() {
                self.viol(ci, "collector_panic", ci.pos, "collect_cycles() panicked while tracing / reclaiming the probe graph (a debug assertion of the collector fired: a Cc was reported more often than it is owned?)".to_string());
                self.stop = true;
                self.report.inconclusive("shard stopped after a panic escaped collect_cycles()");
                return k;
            }
            if done() {
                return k;
            }
        }
        5
    }

    pub fn collect_n(&mut self, ci: &CaseInfo, n: u32) {
        let c = std::cell::Cell::new(0u32);
        self.collect_until(ci, &|| {
            c.set(c.get() + 1);
            c.get() >= n
        });
    }

    pub fn finish(mut self) {
        if self.list {
            return;
        }
        let e = probe::callback_errors();
        if e > 0 {
            self.report.inconclusive(format!("{} callback-side table overflows (harness bug)", e));
        }
        for (i, name) in CTR_NAMES.iter().enumerate() {
            self.report.count(name, self.ctr[i]);
        }
        for (k, n) in std::mem::take(&mut self.kinds) {
            self.report.count(&format!("cases_kind_{}", k), n);
            self.report.set_add("container_kinds", k);
        }
        for (m, n) in std::mem::take(&mut self.modes) {
            self.report.count(&format!("cases_mode_{}", m), n);
        }
        self.report.emit();
    }
}
