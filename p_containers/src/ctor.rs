//! Container constructors as type-level functions (`Ctor::Of<T>`), so that single containers and two-level
//! nestings are enumerated by macro over the same list.
use crate::probe::{Leaf, Probe};
use std::cell::RefCell;
use std::marker::PhantomData;
use std::mem::ManuallyDrop;
use std::panic::AssertUnwindSafe;

pub trait Ctor {
    type Of<T: Probe>: Probe;
    /// instance name, e.g. "tuple7", "array5", "vec12" (part of case ids and signatures)
    fn name(&self) -> String;
    /// constructor kind, e.g. "tuple"
    fn kind(&self) -> &'static str;
    /// number of leaves of an instance whose elements hold `per_elem` leaves each
    fn leaves(&self, per_elem: usize) -> usize;
    /// Builds an instance; `mk` is called once per element position, in position order.
    fn make<T: Probe>(&self, mk: &mut dyn FnMut() -> T) -> Self::Of<T>;
}

macro_rules! rep_ty {
    ($_i:ident, $t:ty) => {
        $t
    };
}
macro_rules! rep_ex {
    ($_i:ident, $e:expr) => {
        $e
    };
}

macro_rules! tuple_ctor {
    ($name:ident, $n:expr; $($i:ident),+) => {
        pub struct $name;
        impl Ctor for $name {
            type Of<T: Probe> = ($(rep_ty!($i, T),)+);
            fn name(&self) -> String { format!("tuple{}", $n) }
            fn kind(&self) -> &'static str { "tuple" }
            fn leaves(&self, per_elem: usize) -> usize { $n * per_elem }
            fn make<T: Probe>(&self, mk: &mut dyn FnMut() -> T) -> Self::Of<T> {
                // tuple expression operands are evaluated left to right
                ($(rep_ex!($i, mk()),)+)
            }
        }
    };
}

tuple_ctor!(CTuple1, 1; A);
tuple_ctor!(CTuple2, 2; A, B);
tuple_ctor!(CTuple3, 3; A, B, C);
tuple_ctor!(CTuple4, 4; A, B, C, D);
tuple_ctor!(CTuple5, 5; A, B, C, D, E);
tuple_ctor!(CTuple6, 6; A, B, C, D, E, F);
tuple_ctor!(CTuple7, 7; A, B, C, D, E, F, G);
tuple_ctor!(CTuple8, 8; A, B, C, D, E, F, G, H);
tuple_ctor!(CTuple9, 9; A, B, C, D, E, F, G, H, I);
tuple_ctor!(CTuple10, 10; A, B, C, D, E, F, G, H, I, J);
tuple_ctor!(CTuple11, 11; A, B, C, D, E, F, G, H, I, J, K);
tuple_ctor!(CTuple12, 12; A, B, C, D, E, F, G, H, I, J, K, L);

pub struct CArr<const N: usize>;
impl<const N: usize> Ctor for CArr<N> {
    type Of<T: Probe> = [T; N];
    fn name(&self) -> String {
        format!("array{}", N)
    }
    fn kind(&self) -> &'static str {
        "array"
    }
    fn leaves(&self, per_elem: usize) -> usize {
        N * per_elem
    }
    fn make<T: Probe>(&self, mk: &mut dyn FnMut() -> T) -> [T; N] {
        std::array::from_fn(|_| mk())
    }
}

pub struct CVec(pub usize);
impl Ctor for CVec {
    type Of<T: Probe> = Vec<T>;
    fn name(&self) -> String {
        format!("vec{}", self.0)
    }
    fn kind(&self) -> &'static str {
        "vec"
    }
    fn leaves(&self, per_elem: usize) -> usize {
        self.0 * per_elem
    }
    fn make<T: Probe>(&self, mk: &mut dyn FnMut() -> T) -> Vec<T> {
        let mut v = Vec::new();
        for _ in 0..self.0 {
            v.push(mk());
        }
        v
    }
}

/// `Box<[T]>`: traced through the crate's impls for `Box<T: ?Sized>` and `[T]`
pub struct CSlice(pub usize);
impl Ctor for CSlice {
    type Of<T: Probe> = Box<[T]>;
    fn name(&self) -> String {
        format!("boxslice{}", self.0)
    }
    fn kind(&self) -> &'static str {
        "boxslice"
    }
    fn leaves(&self, per_elem: usize) -> usize {
        self.0 * per_elem
    }
    fn make<T: Probe>(&self, mk: &mut dyn FnMut() -> T) -> Box<[T]> {
        let mut v = Vec::with_capacity(self.0);
        for _ in 0..self.0 {
            v.push(mk());
        }
        v.into_boxed_slice()
    }
}

macro_rules! unary_ctor {
    ($name:ident, $s:expr, $cnt:expr, |$mk:ident| $e:expr => $of:ty) => {
        pub struct $name;
        impl Ctor for $name {
            type Of<T: Probe> = $of;
            fn name(&self) -> String {
                $s.to_string()
            }
            fn kind(&self) -> &'static str {
                $s
            }
            fn leaves(&self, per_elem: usize) -> usize {
                $cnt * per_elem
            }
            #[allow(unused_variables)]
            fn make<T: Probe>(&self, $mk: &mut dyn FnMut() -> T) -> Self::Of<T> {
                $e
            }
        }
    };
}

unary_ctor!(CBox, "box", 1, |mk| Box::new(mk()) => Box<T>);
unary_ctor!(CSome, "option_some", 1, |mk| Some(mk()) => Option<T>);
unary_ctor!(CNone, "option_none", 0, |mk| None => Option<T>);
unary_ctor!(COk, "result_ok", 1, |mk| Ok(mk()) => Result<T, Leaf>);
unary_ctor!(CErr, "result_err", 1, |mk| Err(mk()) => Result<Leaf, T>);
unary_ctor!(CCell, "refcell", 1, |mk| RefCell::new(mk()) => RefCell<T>);
unary_ctor!(CMd, "manuallydrop", 1, |mk| ManuallyDrop::new(mk()) => ManuallyDrop<T>);
unary_ctor!(CAus, "assertunwindsafe", 1, |mk| AssertUnwindSafe(mk()) => AssertUnwindSafe<T>);
unary_ctor!(CPhantom, "phantomdata", 0, |mk| PhantomData => PhantomData<T>);
