//! c17: runtime monitor for property C17 (built-in Trace / Finalize impls of rust-cc visit each owned Cc
//! exactly once). See cases.rs for the oracles and probe.rs for the payloads.
//!
//! argv: [--noop] [--only CASE-ID] [--shard I --nshards N] [--list] [--timing]
//!       [--tuple-max 12] [--arr-max 32] [--vec-max 40] [--slice-max 40] [--nest-stride K --nest-offset O]
//! Without grid options the whole grid is enumerated (5853 cases with every feature on). Case ids look like
//! `tuple7/cycle/3`, `vec3<refcell>/bcycle-mut/2`; `--only ID` re-runs exactly one case (replay), `--list`
//! prints the ids, `--shard/--nshards` splits by case index, the grid options select a sub-grid (Miri).
mod cases;
mod ctor;
mod env;
mod probe;
mod special;

use cases::run_container;
use ctor::*;
use env::Env;
use probe::Leaf;
use vcommon::report::Args;

fn single<K: Ctor>(env: &mut Env, k: &K) {
    run_container::<K::Of<Leaf>>(env, &k.name(), k.kind(), k.leaves(1), &|mk| k.make(mk));
}

fn nest<O: Ctor, I: Ctor>(env: &mut Env, o: &O, i: &I, index: u64) {
    if index % env.nest_stride != env.nest_offset % env.nest_stride {
        return;
    }
    let name = format!("{}<{}>", o.name(), i.name());
    run_container::<O::Of<I::Of<Leaf>>>(env, &name, "nest", o.leaves(i.leaves(1)), &|mk| o.make(&mut || i.make(&mut *mk)));
}

macro_rules! arrays {
    ($env:expr; $($n:literal)*) => {
        $( if $n <= $env.arr_max { single($env, &CArr::<$n>); } )*
    };
}

macro_rules! tuples {
    ($env:expr; $($n:literal $c:ident),*) => {
        $( if $n <= $env.tuple_max { single($env, &$c); } )*
    };
}

/// outer x inner over the same constructor list
macro_rules! cross {
    ($env:expr, $k:ident; [$($o:expr),*]; $inners:tt) => {
        $( cross!(@row $env, $k; $o; $inners); )*
    };
    (@row $env:expr, $k:ident; $o:expr; [$($i:expr),*]) => {
        $( nest($env, &$o, &$i, $k); $k += 1; )*
    };
}

#[allow(unused_comparisons)]
fn run_all(env: &mut Env) {
    // tuples of arity 1..=12, every position
    tuples!(env; 1 CTuple1, 2 CTuple2, 3 CTuple3, 4 CTuple4, 5 CTuple5, 6 CTuple6, 7 CTuple7, 8 CTuple8, 9 CTuple9,
        10 CTuple10, 11 CTuple11, 12 CTuple12);
    // arrays of length 0..=32, every position
    arrays!(env; 0 1 2 3 4 5 6 7 8 9 10 11 12 13 14 15 16 17 18 19 20 21 22 23 24 25 26 27 28 29 30 31 32);
    // Vec and Box<[T]> of length 0..=40, every position
    for n in 0..=env.vec_max {
        single(env, &CVec(n));
    }
    for n in 0..=env.slice_max {
        single(env, &CSlice(n));
    }
    // unary constructors and variants
    single(env, &CBox);
    single(env, &CSome);
    single(env, &CNone);
    single(env, &COk);
    single(env, &CErr);
    single(env, &CCell);
    single(env, &CMd);
    single(env, &CAus);
    single(env, &CPhantom);
    // a heterogeneous tuple: every position a different implemented type
    run_container::<(Leaf, Vec<Leaf>, Option<Leaf>, Box<Leaf>, std::cell::RefCell<Leaf>, std::marker::PhantomData<Leaf>, [Leaf; 2], Result<Leaf, ()>)>(
        env,
        "tuple8mixed",
        "tuple",
        9,
        &|mk| (mk(), vec![mk(), mk()], Some(mk()), Box::new(mk()), std::cell::RefCell::new(mk()), std::marker::PhantomData, [mk(), mk()], Ok(mk())),
    );
    // all two-level nestings of the 12 constructors (144 outer x inner combinations)
    let mut k = 0u64;
    cross!(env, k;
        [CTuple2, CArr::<3>, CVec(3), CSlice(2), CBox, CSome, CNone, COk, CErr, CCell, CMd, CAus];
        [CTuple2, CArr::<3>, CVec(3), CSlice(2), CBox, CSome, CNone, COk, CErr, CCell, CMd, CAus]);
    // Weak / Cleaner / Cleanable positions
    special::run(env);
}

/// `()` as the unused variant type of the heterogeneous tuple
impl probe::Probe for () {
    fn each_leaf(&self, _: probe::Path, _: &mut dyn probe::Visitor) {}
    fn release(&mut self) {}
    fn hold_borrows(&self, _: probe::BorrowMode, _: &mut Vec<Box<dyn probe::Guard>>) {}
    fn has_cell() -> bool {
        false
    }
    fn owns_heap() -> bool {
        false
    }
}

fn main() {
    let args = Args::from_env();
    if args.flag("--noop") {
        return;
    }
    #[cfg(feature = "auto-collect")]
    {
        if rust_cc::config::config(|c| c.set_auto_collect(false)).is_err() {
            env::harness_error("cannot disable automatic collection");
        }
    }
    let mut env = Env::new(&args);
    for f in ["finalization", "weak-ptrs", "cleaners", "auto-collect"] {
        let on = match f {
            "finalization" => cfg!(feature = "finalization"),
            "weak-ptrs" => cfg!(feature = "weak-ptrs"),
            "cleaners" => cfg!(feature = "cleaners"),
            _ => cfg!(feature = "auto-collect"),
        };
        if on {
            env.report.set_add("features_on", f);
        }
    }
    env.report.set_add("profiles", if cfg!(debug_assertions) { "debug" } else { "release" });
    if cfg!(miri) {
        env.report.set_add("tools", "miri");
    }
    run_all(&mut env);
    env.finish();
}
