//! Positions that must report nothing: Weak, Cleaner, Cleanable (PhantomData goes through the generic grid).
//! Each of these types is first run through the generic grid inside a tuple next to two leaves (with a
//! dangling Weak / an already-run Cleanable), then with a live target:
//!  * weaktarget   a garbage holder owns `Weak<T>`; T is owned by a local only. If `Weak::trace` reported
//!                 its pointee, T would look unowned and be reclaimed early.
//!  * weakself     the holder's container owns a leaf with the only strong back edge and a Weak to the holder
//!                 itself; the cycle must be reclaimed.
//!  * cleanabletarget  a garbage holder owns the `Cleanable` of an action registered in the `Cleaner` of a
//!                 live object; the action must not run (its map must not be reclaimed) while that object lives.
#[allow(unused_imports)]
use crate::cases::{check_bytes, check_fin_hits, check_trace_hits, hits_json, install, run_container, Expect, N_ID, T_ID};
#[allow(unused_imports)]
use crate::env::{harness_error, CaseInfo, Ctr, Env};
#[allow(unused_imports)]
use crate::probe::{self, read, Leaf, Node, Which};

pub fn run(env: &mut Env) {
    #[cfg(feature = "weak-ptrs")]
    weak_cases(env);
    #[cfg(feature = "cleaners")]
    cleaner_cases(env);
    let _ = env;
}

#[cfg(any(feature = "weak-ptrs", feature = "cleaners"))]
fn info(container: &'static str, kind: &'static str, leaves: usize, mode: &'static str, pos: usize) -> CaseInfo<'static> {
    CaseInfo { container, kind, leaves, mode, pos: Some(pos), borrow: "" }
}

#[cfg(feature = "weak-ptrs")]
fn weak_cases(env: &mut Env) {
    use rust_cc::weak::Weak;
    type WC = (Leaf, Weak<Node>, Leaf);
    run_container::<WC>(env, "tuple3weak", "weak", 2, &|mk| (mk(), Weak::new(), mk()));
    if env.only.is_some() && !env.wants_container("tuple3weak") {
        return;
    }
    weak_target(env);
    weak_self(env);
}

#[cfg(feature = "weak-ptrs")]
fn weak_target(env: &mut Env) {
    use rust_cc::weak::Weak;
    type WC = (Leaf, Weak<Node>, Leaf);
    let ci = info("tuple3weak", "weak", 2, "weaktarget", 1);
    if env.select(&ci) {
        env.begin(&ci);
        let t = Node::new(T_ID);
        let h = Node::new(N_ID);
        if !h.set_selfref(h.clone()) {
            harness_error("selfref");
        }
        let c: WC = (Leaf::new(0, None), t.downgrade(), Leaf::new(1, None));
        install(&h, Box::new(c));
        drop(t.clone()); // buffered, owned by `t` only
        drop(h); // garbage
        env.collect_n(&ci, 2);
        if env.stop {
            std::mem::forget(t);
            return;
        }
        env.add(Ctr::SurvivalChecks, 1);
        if read(Which::NodeDrop, T_ID) != 0 {
            env.viol(&ci, "weak_target", Some(1), "the target of a Weak owned by a garbage container was dropped although a local variable owns it (Weak::trace reported its pointee?)".to_string());
            std::mem::forget(t);
            return;
        }
        if !t.canary_ok() {
            env.viol(&ci, "weak_target", Some(1), "canary of the Weak's target damaged after the collection".to_string());
            std::mem::forget(t);
            return;
        }
        check_trace_hits(env, &ci, 2, &|_| Expect::R, "collection of a holder owning (Leaf, Weak, Leaf)");
        check_fin_hits(env, &ci, 2);
        env.sample(&ci, || hits_json(2).set("weak_target_dropped_during_collection", read(Which::NodeDrop, T_ID)));
        drop(t);
        if read(Which::NodeDrop, N_ID) == 1 && read(Which::NodeDrop, T_ID) == 1 {
            check_bytes(env, &ci, "cycle_leak", Some(1), "holder reclaimed, weak target released");
        } else {
            env.report.inconclusive(format!("{}: holder / target not released (precondition, not C17)", ci.id()));
        }
    }

}

#[cfg(feature = "weak-ptrs")]
fn weak_self(env: &mut Env) {
    use rust_cc::weak::Weak;
    type WC = (Leaf, Weak<Node>, Leaf);
    let ci = info("tuple3weak", "weak", 2, "weakself", 1);
    if env.select(&ci) {
        env.begin(&ci);
        let h = Node::new(N_ID);
        let c: WC = (Leaf::new(0, Some(h.clone())), h.downgrade(), Leaf::new(1, None));
        install(&h, Box::new(c));
        drop(h);
        let k = env.collect_until(&ci, &|| read(Which::NodeDrop, N_ID) >= 1);
        if env.stop {
            return;
        }
        check_trace_hits(env, &ci, 2, &|_| Expect::R, "collection of a holder owning (Leaf->holder, Weak->holder, Leaf)");
        if read(Which::NodeDrop, N_ID) == 0 {
            env.viol(&ci, "weak_target", Some(1), format!("a cycle whose holder is also the target of a Weak in its own container was not reclaimed by {} collect_cycles() calls (Weak::trace reported its pointee?)", k - 1));
            return;
        }
        env.add(Ctr::CyclesReclaimed, 1);
        check_bytes(env, &ci, "cycle_leak", Some(1), "cycle reclaimed");
    }
}

#[cfg(feature = "cleaners")]
fn cleaner_cases(env: &mut Env) {
    use rust_cc::cleaners::{Cleanable, Cleaner};
    type CC = (Leaf, Cleaner, Leaf);
    type CB = (Leaf, Cleanable);
    run_container::<CC>(env, "tuple3cleaner", "cleaner", 2, &|mk| {
        let a = mk();
        let cl = Cleaner::new();
        let ep = probe::epoch();
        let _cleanable = cl.register(move || probe::bump_action(ep));
        (a, cl, mk())
    });
    run_container::<CB>(env, "tuple2cleanable", "cleanable", 1, &|mk| {
        let cl = Cleaner::new();
        let cleanable = cl.register(|| {});
        drop(cl); // the action runs here; the Cleanable now refers to nothing
        (mk(), cleanable)
    });
    if env.only.is_some() && !env.wants_container("tuple2cleanable") {
        return;
    }

    let ci = info("tuple2cleanable", "cleanable", 1, "cleanabletarget", 1);
    if env.select(&ci) {
        env.begin(&ci);
        // L: live object owning the Cleaner
        let l = Node::new(T_ID);
        let cl = Cleaner::new();
        let ep = probe::epoch();
        let cleanable = cl.register(move || probe::bump_action(ep));
        install(&l, Box::new((cl,)));
        // N: garbage object owning the Cleanable
        let h = Node::new(N_ID);
        let c: CB = (Leaf::new(0, Some(h.clone())), cleanable);
        install(&h, Box::new(c));
        drop(h);
        let k = env.collect_until(&ci, &|| read(Which::NodeDrop, N_ID) >= 1);
        if env.stop {
            std::mem::forget(l);
            return;
        }
        env.add(Ctr::SurvivalChecks, 1);
        check_trace_hits(env, &ci, 1, &|_| Expect::R, "collection of a holder owning (Leaf->holder, Cleanable)");
        if probe::actions() != 0 || read(Which::NodeDrop, T_ID) != 0 {
            env.viol(&ci, "cleanable_target", Some(1), "a cleaning action ran while the object owning its Cleaner is alive, after a garbage object owning the Cleanable was collected (Cleanable::trace reported the action map?)".to_string());
            std::mem::forget(l);
            return;
        }
        if read(Which::NodeDrop, N_ID) == 0 {
            env.viol(&ci, "cycle_leak", Some(0), format!("cycle through position 0 of (Leaf, Cleanable) not reclaimed by {} collect_cycles() calls", k - 1));
            std::mem::forget(l);
            return;
        }
        env.add(Ctr::CyclesReclaimed, 1);
        env.sample(&ci, || hits_json(1).set("actions_run_before_cleaner_owner_died", probe::actions()));
        drop(l);
        env.add(Ctr::Actions, probe::actions() as u64);
        check_bytes(env, &ci, "cycle_leak", Some(1), "holder reclaimed, cleaner owner released");
    }
}
