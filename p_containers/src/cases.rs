//! The generic case runner: for one container type `C` (given by a builder) it enumerates and executes
//! every mode x position case.
//!
//! Modes (N = holder `Cc<Node>` that owns the container under test, R = number of `Node::trace` calls on N
//! observed in the window, each of which calls `C::trace` exactly once):
//!  * hits            N is garbage through an edge owned by the monitor (`selfref`); every leaf owns a private
//!                    sink object (unless a ManuallyDrop is involved). After collection: every leaf was traced
//!                    exactly R times, nothing else was counted, everything was freed; with `finalization`,
//!                    every leaf was finalized as often as N.
//!  * cycle/p         the only edge back to N is owned by the leaf at position p. N must be reclaimed by
//!                    (repeated) `collect_cycles()`, `allocated_bytes()` must return to the case's baseline,
//!                    and leaf hits == R.
//!  * survive/p       N is garbage (selfref); the leaf at p owns a reference to T, which a local also owns.
//!                    T must survive (not dropped, canary intact, readable), then be released by the local.
//!  * finalize        `Finalize::finalize(&container)` called directly: every leaf finalized exactly once.
//!  * bhits-<m>       N alive and buffered, every RefCell of the container borrowed (m = shared | mut) across
//!                    the collection: leaves behind a borrowed cell have 0 hits, the others R.
//!  * bcycle-<m>/p    p behind a RefCell: as cycle/p but with the cell borrowed: N must NOT be reclaimed and
//!                    the leaves behind the cell must have 0 hits; after releasing the borrow, N is
//!                    re-buffered and must then be reclaimed with hits == R.
//!  * bfinalize-<m>   direct finalize with borrowed cells: leaves outside cells exactly once, leaves behind a
//!                    borrowed cell at most once (the statement speaks about unborrowed containers only).
use crate::env::{bytes, harness_error, CaseInfo, Ctr, Env};
use crate::probe::{self, leaf_snapshot, read, BorrowMode, Guard, Leaf, Node, Path, Probe, Visitor, Which, MAX_LEAVES, MAX_NODES};
use rust_cc::{Cc, Finalize};
use vcommon::Json;

pub type Build<'a, C> = &'a dyn Fn(&mut dyn FnMut() -> Leaf) -> C;
/// the same with the container type erased (the mode functions are compiled once, not once per container type)
pub type BuildDyn<'a> = &'a dyn Fn(&mut dyn FnMut() -> Leaf) -> Box<dyn Probe>;

pub const N_ID: usize = 0;
pub const T_ID: usize = 1;
const SINK0: usize = 2;

struct Collect(Vec<(usize, Path)>, bool);
impl Visitor for Collect {
    fn leaf(&mut self, l: &Leaf, p: Path) {
        self.0.push((l.id, p));
    }
    fn blocked(&mut self) {
        self.1 = true;
    }
}

struct FindLink(usize, Option<Cc<Node>>);
impl Visitor for FindLink {
    fn leaf(&mut self, l: &Leaf, _: Path) {
        if l.id == self.0 && self.1.is_none() {
            self.1 = l.clone_link();
        }
    }
    fn blocked(&mut self) {}
}

/// Builds an instance whose leaf i owns `link(i)`.
fn build_with(build: BuildDyn<'_>, link: &mut dyn FnMut(usize) -> Option<Cc<Node>>) -> (Box<dyn Probe>, usize) {
    let mut i = 0usize;
    let c = build(&mut || {
        let l = Leaf::new(i, link(i));
        i += 1;
        l
    });
    (c, i)
}

fn drop_guards(mut g: Vec<Box<dyn Guard>>) {
    while let Some(x) = g.pop() {
        drop(x);
    }
}

#[derive(Clone, Copy, PartialEq)]
pub enum Expect {
    /// traced once per trace call of the container
    R,
    /// not traced at all
    Zero,
}

/// Oracle A. Returns (R, total leaf hits).
pub fn check_trace_hits(env: &mut Env, ci: &CaseInfo, n: usize, expect: &dyn Fn(usize) -> Expect, what: &str) -> (u32, u64) {
    let r = read(Which::NodeTrace, N_ID);
    let snap = leaf_snapshot(n);
    let mut total = 0u64;
    let mut fired_hits = false;
    let mut fired_excl = false;
    for i in 0..n {
        let h = snap.trace[i];
        total += h as u64;
        match expect(i) {
            Expect::R => {
                if h != r && !fired_hits {
                    fired_hits = true;
                    env.viol(ci, "trace_hits", Some(i), format!("{}: the container's trace ran {} times, the leaf at position {} of {} was traced {} times (expected exactly once per call)", what, r, i, n, h));
                }
            }
            Expect::Zero => {
                if h != 0 && !fired_excl {
                    fired_excl = true;
                    env.viol(ci, "trace_excluded", Some(i), format!("{}: the leaf at position {} is behind a currently borrowed RefCell and must not be reported, but was traced {} times (container traced {} times)", what, i, h, r));
                }
            }
        }
    }
    if snap.trace_total != total {
        env.viol(ci, "trace_excluded", None, format!("{}: {} trace calls reached leaves that are not part of the container", what, snap.trace_total - total));
    }
    env.add(Ctr::LeavesChecked, n as u64);
    env.add(Ctr::TraceCalls, total + r as u64);
    env.add(Ctr::ContainerTraceCalls, r as u64);
    if r == 0 {
        env.add(Ctr::Vacuous, 1);
    }
    (r, total)
}

/// With `finalization`: the collector finalized N `F` times; `Node::finalize` forwards to the container once
/// per call, so every leaf must have been finalized exactly F times.
pub fn check_fin_hits(env: &mut Env, ci: &CaseInfo, n: usize) {
    if !cfg!(feature = "finalization") {
        return;
    }
    let f = read(Which::NodeFin, N_ID);
    let snap = leaf_snapshot(n);
    for i in 0..n {
        let h = snap.fin[i];
        if h != f {
            env.viol(ci, "finalize_hits", Some(i), format!("the collector finalized the holder {} times, the leaf at position {} of {} was finalized {} times", f, i, n, h));
            break;
        }
    }
    env.add(Ctr::FinLeaves, n as u64);
    env.add(Ctr::CollectorFinCalls, f as u64);
}

pub fn check_bytes(env: &mut Env, ci: &CaseInfo, oracle: &str, pos: Option<usize>, what: &str) {
    let now = bytes();
    if now != env.baseline {
        env.viol(ci, oracle, pos, format!("{}: rust_cc::state::allocated_bytes() is {} after the case, baseline was {}", what, now, env.baseline));
    }
}

pub fn hits_json(n: usize) -> Json {
    let shown = n.min(16);
    let snap = leaf_snapshot(shown);
    Json::obj()
        .set("R_holder_trace_calls", read(Which::NodeTrace, N_ID))
        .set("leaf_trace_hits", snap.trace)
        .set("leaf_finalize_hits", snap.fin)
        .set("holder_dropped", read(Which::NodeDrop, N_ID))
}

/// leaf count and path class of every position, from a dry instance
fn dry(name: &str, build: BuildDyn<'_>, n_static: usize) -> Vec<Path> {
    probe::reset(true);
    let (mut c0, n) = build_with(build, &mut |_| None);
    let mut col = Collect(Vec::new(), false);
    c0.each_leaf(Path::default(), &mut col);
    c0.release();
    drop(c0);
    if col.1 || col.0.len() != n || col.0.iter().enumerate().any(|(i, (id, _))| *id != i) {
        harness_error(&format!("walk of {} disagrees with its construction order", name));
    }
    if n != n_static {
        harness_error(&format!("{}: {} leaves built, {} announced", name, n, n_static));
    }
    col.0.iter().map(|(_, p)| *p).collect()
}

/// `n`: number of leaves of an instance (announced by the caller so that case indices can be enumerated
/// without building anything; verified against a dry instance as soon as a case of the container is selected).
pub fn run_container<C: Probe>(env: &mut Env, name: &str, kind: &'static str, n: usize, build: Build<'_, C>) {
    run_erased(env, name, kind, n, C::has_cell(), &|mk| Box::new(build(mk)) as Box<dyn Probe>);
}

fn run_erased(env: &mut Env, name: &str, kind: &'static str, n: usize, has_cell: bool, build: BuildDyn<'_>) {
    // (case indices only matter for sharding, i.e. without --only)
    if env.stop || (env.only.is_some() && !env.wants_container(name)) {
        return;
    }
    if n + 1 >= MAX_LEAVES || n + SINK0 >= MAX_NODES {
        harness_error(&format!("{}: too many leaves for the tables", name));
    }
    let mut lazy: Option<Vec<Path>> = None;
    macro_rules! paths {
        () => {
            lazy.get_or_insert_with(|| dry(name, build, n))
        };
    }
    let ci = |mode: &'static str, pos: Option<usize>, borrow: &'static str| CaseInfo { container: name, kind, leaves: n, mode, pos, borrow };

    let c = ci("hits", None, "");
    if env.select(&c) {
        let any_md = paths!().iter().any(|p| p.in_md);
        mode_hits(env, &c, build, n, !any_md);
    }
    for p in 0..n {
        let c = ci("cycle", Some(p), "");
        if env.select(&c) && !env.skip_leaky(paths!()[p].md_heap) {
            mode_cycle(env, &c, build, n, p);
        }
    }
    for p in 0..n {
        let c = ci("survive", Some(p), "");
        if env.select(&c) {
            let in_md = paths!()[p].in_md;
            if !env.skip_leaky(in_md) {
                mode_survive(env, &c, build, n, p, in_md);
            }
        }
    }
    let c = ci("finalize", None, "");
    if env.select(&c) {
        let paths = paths!().clone();
        mode_finalize(env, &c, build, n, None, &paths);
    }
    if has_cell {
        for bm in [BorrowMode::Shared, BorrowMode::Mut] {
            let c = ci("bhits", None, bm.name());
            if env.select(&c) {
                let paths = paths!().clone();
                mode_bhits(env, &c, build, n, bm, &paths);
            }
            for p in 0..n {
                // enumerated for every position (indices must not depend on the dry instance); only positions
                // behind a RefCell are cases
                let c = ci("bcycle", Some(p), bm.name());
                if env.select(&c) && paths!()[p].in_cell && !env.skip_leaky(paths!()[p].md_heap) {
                    let paths = paths!().clone();
                    mode_bcycle(env, &c, build, n, p, bm, &paths);
                }
            }
            let c = ci("bfinalize", None, bm.name());
            if env.select(&c) {
                let paths = paths!().clone();
                mode_finalize(env, &c, build, n, Some(bm), &paths);
            }
        }
    }
}

pub fn install(n: &Cc<Node>, c: Box<dyn Probe>) {
    if !n.install(c) {
        harness_error("holder slot already filled");
    }
}

fn mode_hits(env: &mut Env, ci: &CaseInfo, build: BuildDyn<'_>, n: usize, sinks: bool) {
    env.begin(ci);
    let h = Node::new(N_ID);
    if !h.set_selfref(h.clone()) {
        harness_error("selfref");
    }
    let (c, _) = build_with(build, &mut |i| if sinks { Some(Node::new(SINK0 + i)) } else { None });
    install(&h, c);
    drop(h); // strong count 2 -> 1: buffered as a possible cycle root
    env.collect_until(ci, &|| read(Which::NodeDrop, N_ID) >= 1);
    if env.stop {
        check_trace_hits(env, ci, n, &|_| Expect::R, "collection that panicked");
        return;
    }
    check_trace_hits(env, ci, n, &|_| Expect::R, "collection of the holder");
    check_fin_hits(env, ci, n);
    if read(Which::NodeDrop, N_ID) == 0 {
        env.report.inconclusive(format!("{}: holder in a monitor-owned self cycle was not reclaimed (precondition of the case, not C17)", ci.id()));
        return;
    }
    if sinks {
        let missing = (0..n).filter(|i| read(Which::NodeDrop, SINK0 + i) != 1).count();
        if missing > 0 {
            env.viol(ci, "cycle_leak", None, format!("{} of {} objects owned only by leaves of the reclaimed container were not dropped exactly once", missing, n));
        }
    }
    check_bytes(env, ci, "cycle_leak", None, "holder and everything owned by its container are garbage");
    env.sample(ci, || hits_json(n));
}

fn mode_cycle(env: &mut Env, ci: &CaseInfo, build: BuildDyn<'_>, n: usize, p: usize) {
    env.begin(ci);
    let h = Node::new(N_ID);
    let (c, _) = build_with(build, &mut |i| if i == p { Some(h.clone()) } else { None });
    install(&h, c);
    drop(h); // the only remaining owner of N is the leaf at position p of N's own container
    let k = env.collect_until(ci, &|| read(Which::NodeDrop, N_ID) >= 1);
    if env.stop {
        check_trace_hits(env, ci, n, &|_| Expect::R, "collection that panicked");
        return;
    }
    check_trace_hits(env, ci, n, &|_| Expect::R, "collection of a cycle through the container");
    check_fin_hits(env, ci, n);
    let d = read(Which::NodeDrop, N_ID);
    if d == 0 {
        env.viol(ci, "cycle_leak", Some(p), format!("a cycle routed only through position {} of {} was not reclaimed by {} collect_cycles() calls (position not reported by trace?)", p, n, k - 1));
        return;
    }
    env.add(Ctr::CyclesReclaimed, 1);
    check_bytes(env, ci, "cycle_leak", Some(p), "cycle reclaimed");
    env.sample(ci, || hits_json(n).set("collect_calls_needed", k));
}

fn mode_survive(env: &mut Env, ci: &CaseInfo, build: BuildDyn<'_>, n: usize, p: usize, pinned: bool) {
    env.begin(ci);
    let t = Node::new(T_ID);
    let h = Node::new(N_ID);
    if !h.set_selfref(h.clone()) {
        harness_error("selfref");
    }
    let (c, _) = build_with(build, &mut |i| if i == p { Some(t.clone()) } else { None });
    install(&h, c);
    drop(t.clone()); // T: owned by the leaf and by `t`; buffered
    drop(h); // N: garbage
    env.collect_n(ci, 2);
    if env.stop {
        check_trace_hits(env, ci, n, &|_| Expect::R, "collection that panicked");
        std::mem::forget(t);
        return;
    }
    env.add(Ctr::SurvivalChecks, 1);
    let td = read(Which::NodeDrop, T_ID);
    if td != 0 {
        env.viol(ci, "early_reclaim", Some(p), format!("an object owned through position {} of {} and by a local variable was dropped by the collection (position reported more than once?)", p, n));
        std::mem::forget(t); // its memory is gone; do not touch it
        return;
    }
    // read through the handle: a freed object is a use-after-free for Miri / ASan / memcheck, natively the canary
    if !t.canary_ok() || t.id != T_ID {
        env.viol(ci, "early_reclaim", Some(p), format!("canary of the object owned through position {} and by a local variable is damaged after the collection", p));
        std::mem::forget(t);
        return;
    }
    check_trace_hits(env, ci, n, &|_| Expect::R, "collection of the holder");
    check_fin_hits(env, ci, n);
    if read(Which::NodeDrop, N_ID) == 0 {
        env.report.inconclusive(format!("{}: holder in a monitor-owned self cycle was not reclaimed (precondition of the case, not C17)", ci.id()));
        std::mem::forget(t);
        return;
    }
    env.sample(ci, || hits_json(n).set("survivor_dropped_during_collection", td).set("survivor_canary_ok", true));
    drop(t);
    if pinned {
        // the reference owned through a ManuallyDrop was forgotten with the holder: T stays allocated (by design)
        env.add(Ctr::Pinned, 1);
        return;
    }
    if read(Which::NodeDrop, T_ID) != 1 {
        env.viol(ci, "cycle_leak", Some(p), format!("the survivor was not released when its last owner went away (dropped {} times)", read(Which::NodeDrop, T_ID)));
        return;
    }
    check_bytes(env, ci, "cycle_leak", Some(p), "holder reclaimed, survivor released");
}

/// Direct call of the public trait method on a free-standing container (no Cc involved at all).
fn mode_finalize(env: &mut Env, ci: &CaseInfo, build: BuildDyn<'_>, n: usize, bm: Option<BorrowMode>, paths: &[Path]) {
    env.begin(ci);
    let (mut c, _) = build_with(build, &mut |_| None);
    let mut guards: Vec<Box<dyn Guard>> = Vec::new();
    if let Some(m) = bm {
        c.hold_borrows(m, &mut guards);
    }
    // dispatches to <C as Finalize>::finalize, the crate's impl for the container type
    <dyn Probe as Finalize>::finalize(&*c);
    drop_guards(guards);
    let snap = leaf_snapshot(n);
    for i in 0..n {
        let f = snap.fin[i];
        let borrowed = bm.is_some() && paths[i].in_cell;
        // a cell that is only borrowed shared can still be read, so the forwarding is still owed ("each contained value
        // exactly once"); behind a mutably borrowed cell nothing can be forwarded safely: at most once
        let mut_borrowed = borrowed && matches!(bm, Some(BorrowMode::Mut));
        let ok = if mut_borrowed { f <= 1 } else { f == 1 };
        if !ok {
            env.viol(ci, "finalize_forward", Some(i), format!("Finalize::finalize(&container) forwarded {} times to the value at position {} of {} (expected {})", f, i, n, if mut_borrowed { "at most once" } else { "exactly once" }));
            break;
        }
    }
    if snap.fin_total != snap.fin.iter().map(|x| *x as u64).sum::<u64>() {
        env.viol(ci, "finalize_forward", None, "a value outside the container was finalized".to_string());
    }
    if snap.trace_total != 0 {
        env.viol(ci, "finalize_forward", None, "finalize() traced".to_string());
    }
    env.add(Ctr::FinLeaves, n as u64);
    env.add(Ctr::FinForwardChecks, 1);
    env.sample(ci, || hits_json(n));
    c.release();
    drop(c);
}

fn mode_bhits(env: &mut Env, ci: &CaseInfo, build: BuildDyn<'_>, n: usize, bm: BorrowMode, paths: &[Path]) {
    env.begin(ci);
    let h = Node::new(N_ID);
    let (c, _) = build_with(build, &mut |_| None);
    install(&h, c);
    let mut guards: Vec<Box<dyn Guard>> = Vec::new();
    match h.container() {
        Some(c) => c.hold_borrows(bm, &mut guards),
        None => harness_error("container"),
    }
    drop(h.clone()); // buffered, still owned by `h`
    env.collect_n(ci, 1);
    if env.stop {
        std::mem::forget(guards);
        std::mem::forget(h);
        return;
    }
    env.add(Ctr::BorrowedChecks, 1);
    check_trace_hits(env, ci, n, &|i| if paths[i].in_cell { Expect::Zero } else { Expect::R }, "collection with every RefCell of the container borrowed");
    let ng = guards.len();
    env.sample(ci, || hits_json(n).set("cells_borrowed", ng));
    drop_guards(guards);
    drop(h);
    if read(Which::NodeDrop, N_ID) != 1 {
        env.report.inconclusive(format!("{}: acyclic holder not released by its last owner", ci.id()));
        return;
    }
    check_bytes(env, ci, "cycle_leak", None, "acyclic holder released");
}

fn mode_bcycle(env: &mut Env, ci: &CaseInfo, build: BuildDyn<'_>, n: usize, p: usize, bm: BorrowMode, paths: &[Path]) {
    env.begin(ci);
    let h = Node::new(N_ID);
    let (c, _) = build_with(build, &mut |i| if i == p { Some(h.clone()) } else { None });
    install(&h, c);
    let mut guards: Vec<Box<dyn Guard>> = Vec::new();
    match h.container() {
        Some(c) => c.hold_borrows(bm, &mut guards),
        None => harness_error("container"),
    }
    if guards.is_empty() {
        harness_error("no RefCell borrowed in a bcycle case");
    }
    drop(h); // N is now owned only by the leaf behind the borrowed cell
    env.collect_n(ci, 2);
    if env.stop {
        std::mem::forget(guards);
        return;
    }
    env.add(Ctr::BorrowedChecks, 1);
    if read(Which::NodeDrop, N_ID) != 0 {
        env.viol(ci, "borrowed_reclaimed", Some(p), format!("the Cc at position {} is behind a RefCell that was {}-borrowed during the collection, yet the cycle through it was reclaimed (a borrowed RefCell must report nothing)", p, bm.name()));
        check_trace_hits(env, ci, n, &|i| if paths[i].in_cell { Expect::Zero } else { Expect::R }, "collection with the RefCell borrowed");
        std::mem::forget(guards); // the cells are gone
        return;
    }
    check_trace_hits(env, ci, n, &|i| if paths[i].in_cell { Expect::Zero } else { Expect::R }, "collection with the RefCell borrowed");
    let first = if ci.nontrivial() { hits_json(n) } else { Json::Null };
    // recover a handle to N through the guards (N is alive), then release the borrows
    let mut f = FindLink(p, None);
    for g in &guards {
        g.probe().each_leaf(Path::default(), &mut f);
    }
    let h2 = match f.1 {
        Some(h2) => h2,
        None => harness_error("leaf with the back edge not reachable through the guards"),
    };
    drop_guards(guards);
    probe::reset(false);
    drop(h2); // buffered again; the cell is no longer borrowed
    let k = env.collect_until(ci, &|| read(Which::NodeDrop, N_ID) >= 1);
    if env.stop {
        return;
    }
    check_trace_hits(env, ci, n, &|_| Expect::R, "collection after releasing the borrow");
    if read(Which::NodeDrop, N_ID) == 0 {
        env.viol(ci, "cycle_leak", Some(p), format!("after the borrow was released, the cycle through position {} (behind a RefCell) was not reclaimed by {} collect_cycles() calls", p, k - 1));
        return;
    }
    env.add(Ctr::CyclesReclaimed, 1);
    check_bytes(env, ci, "cycle_leak", Some(p), "cycle reclaimed after releasing the borrow");
    env.sample(ci, || Json::obj().set("while_borrowed", first).set("after_release", hits_json(n)));
}
