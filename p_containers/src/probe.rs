//! Probe payloads of the C17 monitor.
//!
//! * `Leaf`   the element type put at every position of the container under test. Its hand-written `Trace`
//!            counts its own invocations and forwards to the (optional) `Cc<Node>` it owns; its `Finalize`
//!            counts its own invocations.
//! * `Node`   the cycle-collected owner ("holder") of a container under test. It is type-erased
//!            (`Box<dyn Probe>`), because a leaf must be able to point back at its owner and
//!            `Holder<C>` with `C` mentioning `Cc<Holder<C>>` would be an infinite type. Its hand-written
//!            `Trace` counts its own invocations (`R`) and forwards to the container's `Trace::trace`
//!            exactly once per invocation, calling the impl of the *container type* directly (never through
//!            the crate's impl for `Box`).
//! * counters live in const-initialised thread-local tables indexed by leaf / node id, so they survive the
//!   objects and nothing allocates or panics inside callbacks invoked by rust-cc. An epoch number makes
//!   objects of earlier cases (deliberately leaked ones, see `ManuallyDrop` below) invisible to later cases.
//! * `Probe` is the monitor's own structural view of a container (walk over the owned leaves, release of
//!   `ManuallyDrop` contents, taking `RefCell` borrows). It is written independently of the crate's impls.
//!
//! ManuallyDrop design: a `ManuallyDrop<X>` is never dropped by drop glue. `Node::drop` calls
//! `Probe::release`, which runs `ManuallyDrop::drop` on a content **only if that content owns no `Cc` at
//! that moment** (it only inspects `Option::is_some` of the leaves' link slots; no `Cc` is created, cloned,
//! moved, dereferenced or dropped, so the `Trace` contract for `Drop` impls is respected). If the content
//! still owns a `Cc` when its owner dies (a cycle or an ownership edge routed through the `ManuallyDrop`),
//! that reference is simply forgotten, which is what `ManuallyDrop` means. Consequences, handled by the
//! case runner: (a) a forgotten back edge to the dying owner is harmless; (b) heap memory owned by the
//! un-dropped content (`ManuallyDrop<Vec<_>>`, `ManuallyDrop<Box<_>>`) leaks in the system heap: those cases
//! are flagged `leaky` and not run under Miri's leak checker; (c) in a survival case the forgotten reference
//! pins the survivor: its final release is not judged and the case is `leaky` as well.
use rust_cc::{Cc, Context, Finalize, Trace};
use std::cell::{Cell, OnceCell, Ref, RefCell, RefMut};
use std::marker::PhantomData;
use std::mem::ManuallyDrop;
use std::panic::AssertUnwindSafe;

pub const MAX_LEAVES: usize = 128;
pub const MAX_NODES: usize = 96;

pub const CANARY: u64 = 0xC17C_A11A_5EED_0000;
pub const DEAD: u64 = 0xDEAD_DEAD_DEAD_DEAD;

pub struct Tables {
    pub epoch: Cell<u32>,
    pub leaf_trace: [Cell<u32>; MAX_LEAVES],
    pub leaf_fin: [Cell<u32>; MAX_LEAVES],
    pub node_trace: [Cell<u32>; MAX_NODES],
    pub node_fin: [Cell<u32>; MAX_NODES],
    pub node_drop: [Cell<u32>; MAX_NODES],
    pub actions: Cell<u32>,
    /// sums over the whole leaf tables (cheap "nothing else was counted" check)
    pub leaf_trace_total: Cell<u64>,
    pub leaf_fin_total: Cell<u64>,
    /// highest leaf / node id constructed in this epoch + 1 (bounds the part of the tables that is in use)
    pub leaf_hi: Cell<usize>,
    pub node_hi: Cell<usize>,
    /// problems noticed inside callbacks (id out of range); reported by the runner afterwards
    pub errors: Cell<u32>,
}

thread_local! {
    pub static TAB: Tables = const { Tables {
        epoch: Cell::new(0),
        leaf_trace: [const { Cell::new(0) }; MAX_LEAVES],
        leaf_fin: [const { Cell::new(0) }; MAX_LEAVES],
        node_trace: [const { Cell::new(0) }; MAX_NODES],
        node_fin: [const { Cell::new(0) }; MAX_NODES],
        node_drop: [const { Cell::new(0) }; MAX_NODES],
        actions: Cell::new(0),
        leaf_trace_total: Cell::new(0),
        leaf_fin_total: Cell::new(0),
        leaf_hi: Cell::new(0),
        node_hi: Cell::new(0),
        errors: Cell::new(0),
    } };
}

#[derive(Clone, Copy)]
pub enum Which {
    LeafTrace,
    LeafFin,
    NodeTrace,
    NodeFin,
    NodeDrop,
}

#[inline]
fn bump(which: Which, id: usize, epoch: u32) {
    TAB.with(|t| {
        if t.epoch.get() != epoch {
            return; // object of an earlier case
        }
        let tab: &[Cell<u32>] = match which {
            Which::LeafTrace => &t.leaf_trace,
            Which::LeafFin => &t.leaf_fin,
            Which::NodeTrace => &t.node_trace,
            Which::NodeFin => &t.node_fin,
            Which::NodeDrop => &t.node_drop,
        };
        match tab.get(id) {
            Some(c) => c.set(c.get().saturating_add(1)),
            None => t.errors.set(t.errors.get() + 1),
        }
        match which {
            Which::LeafTrace => t.leaf_trace_total.set(t.leaf_trace_total.get() + 1),
            Which::LeafFin => t.leaf_fin_total.set(t.leaf_fin_total.get() + 1),
            _ => {}
        }
    })
}

/// One thread-local access for a whole check: the first `n` leaf counters and the table totals.
pub struct LeafSnap {
    pub trace: Vec<u32>,
    pub fin: Vec<u32>,
    pub trace_total: u64,
    pub fin_total: u64,
}

pub fn leaf_snapshot(n: usize) -> LeafSnap {
    TAB.with(|t| LeafSnap {
        trace: t.leaf_trace[..n].iter().map(|c| c.get()).collect(),
        fin: t.leaf_fin[..n].iter().map(|c| c.get()).collect(),
        trace_total: t.leaf_trace_total.get(),
        fin_total: t.leaf_fin_total.get(),
    })
}

pub fn read(which: Which, id: usize) -> u32 {
    TAB.with(|t| {
        let tab: &[Cell<u32>] = match which {
            Which::LeafTrace => &t.leaf_trace,
            Which::LeafFin => &t.leaf_fin,
            Which::NodeTrace => &t.node_trace,
            Which::NodeFin => &t.node_fin,
            Which::NodeDrop => &t.node_drop,
        };
        tab[id].get()
    })
}

pub fn epoch() -> u32 {
    TAB.with(|t| t.epoch.get())
}

/// epoch for a new object with this id; moves the high-water mark
fn register(leaf: bool, id: usize) -> u32 {
    TAB.with(|t| {
        let hi = if leaf { &t.leaf_hi } else { &t.node_hi };
        if id + 1 > hi.get() {
            hi.set(id + 1);
        }
        t.epoch.get()
    })
}

/// Starts a new observation window: counters to zero. `new_epoch` additionally hides every older object.
pub fn reset(new_epoch: bool) {
    TAB.with(|t| {
        // only ids below the high-water marks can have been counted (objects of older epochs are ignored)
        let lh = t.leaf_hi.get().min(MAX_LEAVES);
        let nh = t.node_hi.get().min(MAX_NODES);
        for tab in [&t.leaf_trace[..lh], &t.leaf_fin[..lh], &t.node_trace[..nh], &t.node_fin[..nh], &t.node_drop[..nh]] {
            for c in tab {
                c.set(0);
            }
        }
        t.leaf_trace_total.set(0);
        t.leaf_fin_total.set(0);
        t.actions.set(0);
        if new_epoch {
            t.epoch.set(t.epoch.get() + 1);
            t.leaf_hi.set(0);
            t.node_hi.set(0);
        }
    })
}

#[allow(dead_code)]
pub fn actions() -> u32 {
    TAB.with(|t| t.actions.get())
}

#[allow(dead_code)]
pub fn bump_action(epoch: u32) {
    TAB.with(|t| {
        if t.epoch.get() == epoch {
            t.actions.set(t.actions.get() + 1)
        }
    })
}

pub fn callback_errors() -> u32 {
    TAB.with(|t| t.errors.get())
}

// ------------------------------------------------------------------------------------------------
// Leaf

pub struct Leaf {
    pub id: usize,
    epoch: u32,
    /// the one `Cc` this leaf may own. Behind the monitor's own `RefCell` so that the test driver can take
    /// it out / clone it through a shared reference (never while a collection runs).
    link: RefCell<Option<Cc<Node>>>,
}

impl Leaf {
    pub fn new(id: usize, link: Option<Cc<Node>>) -> Leaf {
        Leaf { id, epoch: register(true, id), link: RefCell::new(link) }
    }
    pub fn has_link(&self) -> Option<bool> {
        self.link.try_borrow().ok().map(|l| l.is_some())
    }
    /// driver only, outside collections
    pub fn clone_link(&self) -> Option<Cc<Node>> {
        self.link.try_borrow().ok().and_then(|l| l.clone())
    }
}

unsafe impl Trace for Leaf {
    fn trace(&self, ctx: &mut Context<'_>) {
        bump(Which::LeafTrace, self.id, self.epoch);
        if let Ok(l) = self.link.try_borrow() {
            if let Some(cc) = &*l {
                <Cc<Node> as Trace>::trace(cc, ctx);
            }
        }
    }
}

impl Finalize for Leaf {
    fn finalize(&self) {
        bump(Which::LeafFin, self.id, self.epoch);
    }
}

// ------------------------------------------------------------------------------------------------
// Node

pub struct Node {
    pub id: usize,
    epoch: u32,
    canary: Cell<u64>,
    /// an edge owned by the monitor (traced by `Node::trace` itself): used to make the holder garbage
    /// independently of the container under test
    selfref: RefCell<Option<Cc<Node>>>,
    slot: OnceCell<Box<dyn Probe>>,
}

impl Node {
    pub fn new(id: usize) -> Cc<Node> {
        Cc::new(Node { id, epoch: register(false, id), canary: Cell::new(CANARY ^ id as u64), selfref: RefCell::new(None), slot: OnceCell::new() })
    }
    pub fn canary_ok(&self) -> bool {
        self.canary.get() == CANARY ^ self.id as u64
    }
    pub fn set_selfref(&self, cc: Cc<Node>) -> bool {
        match self.selfref.try_borrow_mut() {
            Ok(mut s) => {
                *s = Some(cc);
                true
            }
            Err(_) => false,
        }
    }
    pub fn install(&self, c: Box<dyn Probe>) -> bool {
        self.slot.set(c).is_ok()
    }
    pub fn container(&self) -> Option<&dyn Probe> {
        self.slot.get().map(|b| &**b)
    }
}

unsafe impl Trace for Node {
    fn trace(&self, ctx: &mut Context<'_>) {
        bump(Which::NodeTrace, self.id, self.epoch);
        if let Ok(s) = self.selfref.try_borrow() {
            if let Some(cc) = &*s {
                <Cc<Node> as Trace>::trace(cc, ctx);
            }
        }
        if let Some(c) = self.slot.get() {
            // the impl of the container type itself, not the crate's impl for Box
            <dyn Probe as Trace>::trace(&**c, ctx);
        }
    }
}

impl Finalize for Node {
    fn finalize(&self) {
        bump(Which::NodeFin, self.id, self.epoch);
        if let Some(c) = self.slot.get() {
            <dyn Probe as Finalize>::finalize(&**c);
        }
    }
}

impl Drop for Node {
    fn drop(&mut self) {
        bump(Which::NodeDrop, self.id, self.epoch);
        self.canary.set(DEAD);
        if let Some(c) = self.slot.get_mut() {
            // frees ManuallyDrop contents that own no Cc (see module documentation); touches no Cc
            c.release();
        }
    }
}

// ------------------------------------------------------------------------------------------------
// Probe: the monitor's structural view of a container

#[derive(Clone, Copy, Debug, Default)]
pub struct Path {
    /// the path from the container root to the leaf crosses a RefCell
    pub in_cell: bool,
    /// ... crosses a ManuallyDrop
    pub in_md: bool,
    /// ... crosses a ManuallyDrop whose content owns system-heap memory
    pub md_heap: bool,
}

pub trait Visitor {
    fn leaf(&mut self, l: &Leaf, p: Path);
    /// a RefCell on the way was mutably borrowed: the walk is incomplete
    fn blocked(&mut self);
}

#[derive(Clone, Copy, PartialEq, Eq, Debug)]
pub enum BorrowMode {
    Shared,
    Mut,
}

impl BorrowMode {
    pub fn name(self) -> &'static str {
        match self {
            BorrowMode::Shared => "shared",
            BorrowMode::Mut => "mut",
        }
    }
}

/// A RefCell borrow kept alive across a collection (lifetime erased; the runner guarantees that the cell
/// outlives the guard or forgets the guard).
pub trait Guard {
    fn probe(&self) -> &dyn Probe;
}

impl<T: Probe> Guard for Ref<'static, T> {
    fn probe(&self) -> &dyn Probe {
        &**self
    }
}

impl<T: Probe> Guard for RefMut<'static, T> {
    fn probe(&self) -> &dyn Probe {
        &**self
    }
}

pub trait Probe: Trace + 'static {
    /// Visits every `Leaf` owned by `self` in position order (depth first, left to right).
    fn each_leaf(&self, p: Path, v: &mut dyn Visitor);
    /// Called once, by the owner's `Drop` or by the driver right before dropping a free-standing container.
    fn release(&mut self);
    /// Borrows the outermost RefCell on every path (shared mode: also the nested ones).
    fn hold_borrows(&self, mode: BorrowMode, out: &mut Vec<Box<dyn Guard>>);
    fn has_cell() -> bool
    where
        Self: Sized;
    fn owns_heap() -> bool
    where
        Self: Sized;
}

struct AnyLink(bool);
impl Visitor for AnyLink {
    fn leaf(&mut self, l: &Leaf, _: Path) {
        if l.has_link() != Some(false) {
            self.0 = true;
        }
    }
    fn blocked(&mut self) {
        self.0 = true;
    }
}

/// Conservative: true when some leaf owns a Cc or when it cannot be told.
pub fn any_link(p: &dyn Probe) -> bool {
    let mut v = AnyLink(false);
    p.each_leaf(Path::default(), &mut v);
    v.0
}

impl Probe for Leaf {
    fn each_leaf(&self, p: Path, v: &mut dyn Visitor) {
        v.leaf(self, p);
    }
    fn release(&mut self) {}
    fn hold_borrows(&self, _: BorrowMode, _: &mut Vec<Box<dyn Guard>>) {}
    fn has_cell() -> bool {
        false
    }
    fn owns_heap() -> bool {
        false
    }
}

macro_rules! no_leaf_probe {
    ($heap:expr; $($t:tt)*) => {
        $($t)* {
            fn each_leaf(&self, _: Path, _: &mut dyn Visitor) {}
            fn release(&mut self) {}
            fn hold_borrows(&self, _: BorrowMode, _: &mut Vec<Box<dyn Guard>>) {}
            fn has_cell() -> bool { false }
            fn owns_heap() -> bool { $heap }
        }
    };
}

no_leaf_probe!(false; impl<T: ?Sized + 'static> Probe for PhantomData<T>);
#[cfg(feature = "weak-ptrs")]
no_leaf_probe!(true; impl Probe for rust_cc::weak::Weak<Node>);
#[cfg(feature = "cleaners")]
no_leaf_probe!(true; impl Probe for rust_cc::cleaners::Cleaner);
#[cfg(feature = "cleaners")]
no_leaf_probe!(true; impl Probe for rust_cc::cleaners::Cleanable);

macro_rules! tuple_probe {
    ($($a:ident),+) => {
        #[allow(non_snake_case)]
        impl<$($a: Probe),+> Probe for ($($a,)+) {
            fn each_leaf(&self, p: Path, v: &mut dyn Visitor) {
                let ($($a,)+) = self;
                $( $a.each_leaf(p, v); )+
            }
            fn release(&mut self) {
                let ($($a,)+) = self;
                $( $a.release(); )+
            }
            fn hold_borrows(&self, mode: BorrowMode, out: &mut Vec<Box<dyn Guard>>) {
                let ($($a,)+) = self;
                $( $a.hold_borrows(mode, out); )+
            }
            fn has_cell() -> bool { false $(|| $a::has_cell())+ }
            fn owns_heap() -> bool { false $(|| $a::owns_heap())+ }
        }
    };
}

tuple_probe!(A);
tuple_probe!(A, B);
tuple_probe!(A, B, C);
tuple_probe!(A, B, C, D);
tuple_probe!(A, B, C, D, E);
tuple_probe!(A, B, C, D, E, F);
tuple_probe!(A, B, C, D, E, F, G);
tuple_probe!(A, B, C, D, E, F, G, H);
tuple_probe!(A, B, C, D, E, F, G, H, I);
tuple_probe!(A, B, C, D, E, F, G, H, I, J);
tuple_probe!(A, B, C, D, E, F, G, H, I, J, K);
tuple_probe!(A, B, C, D, E, F, G, H, I, J, K, L);

macro_rules! seq_probe {
    ($heap:expr; $($t:tt)*) => {
        $($t)* {
            fn each_leaf(&self, p: Path, v: &mut dyn Visitor) {
                for e in self.iter() { e.each_leaf(p, v); }
            }
            fn release(&mut self) {
                for e in self.iter_mut() { e.release(); }
            }
            fn hold_borrows(&self, mode: BorrowMode, out: &mut Vec<Box<dyn Guard>>) {
                for e in self.iter() { e.hold_borrows(mode, out); }
            }
            fn has_cell() -> bool { T::has_cell() }
            fn owns_heap() -> bool { $heap || T::owns_heap() }
        }
    };
}

seq_probe!(false; impl<T: Probe, const N: usize> Probe for [T; N]);
seq_probe!(true; impl<T: Probe> Probe for Vec<T>);
seq_probe!(true; impl<T: Probe> Probe for Box<[T]>);

impl<T: Probe> Probe for Box<T> {
    fn each_leaf(&self, p: Path, v: &mut dyn Visitor) {
        (**self).each_leaf(p, v)
    }
    fn release(&mut self) {
        (**self).release()
    }
    fn hold_borrows(&self, mode: BorrowMode, out: &mut Vec<Box<dyn Guard>>) {
        (**self).hold_borrows(mode, out)
    }
    fn has_cell() -> bool {
        T::has_cell()
    }
    fn owns_heap() -> bool {
        true
    }
}

impl<T: Probe> Probe for AssertUnwindSafe<T> {
    fn each_leaf(&self, p: Path, v: &mut dyn Visitor) {
        self.0.each_leaf(p, v)
    }
    fn release(&mut self) {
        self.0.release()
    }
    fn hold_borrows(&self, mode: BorrowMode, out: &mut Vec<Box<dyn Guard>>) {
        self.0.hold_borrows(mode, out)
    }
    fn has_cell() -> bool {
        T::has_cell()
    }
    fn owns_heap() -> bool {
        T::owns_heap()
    }
}

impl<T: Probe> Probe for Option<T> {
    fn each_leaf(&self, p: Path, v: &mut dyn Visitor) {
        if let Some(x) = self {
            x.each_leaf(p, v)
        }
    }
    fn release(&mut self) {
        if let Some(x) = self {
            x.release()
        }
    }
    fn hold_borrows(&self, mode: BorrowMode, out: &mut Vec<Box<dyn Guard>>) {
        if let Some(x) = self {
            x.hold_borrows(mode, out)
        }
    }
    fn has_cell() -> bool {
        T::has_cell()
    }
    fn owns_heap() -> bool {
        T::owns_heap()
    }
}

impl<R: Probe, E: Probe> Probe for Result<R, E> {
    fn each_leaf(&self, p: Path, v: &mut dyn Visitor) {
        match self {
            Ok(x) => x.each_leaf(p, v),
            Err(x) => x.each_leaf(p, v),
        }
    }
    fn release(&mut self) {
        match self {
            Ok(x) => x.release(),
            Err(x) => x.release(),
        }
    }
    fn hold_borrows(&self, mode: BorrowMode, out: &mut Vec<Box<dyn Guard>>) {
        match self {
            Ok(x) => x.hold_borrows(mode, out),
            Err(x) => x.hold_borrows(mode, out),
        }
    }
    fn has_cell() -> bool {
        R::has_cell() || E::has_cell()
    }
    fn owns_heap() -> bool {
        R::owns_heap() || E::owns_heap()
    }
}

impl<T: Probe> Probe for RefCell<T> {
    fn each_leaf(&self, p: Path, v: &mut dyn Visitor) {
        match self.try_borrow() {
            Ok(b) => b.each_leaf(Path { in_cell: true, ..p }, v),
            Err(_) => v.blocked(),
        }
    }
    fn release(&mut self) {
        self.get_mut().release()
    }
    fn hold_borrows(&self, mode: BorrowMode, out: &mut Vec<Box<dyn Guard>>) {
        match mode {
            BorrowMode::Shared => {
                if let Ok(b) = self.try_borrow() {
                    let inner: *const T = &*b;
                    // SAFETY (lifetime erasure): the runner keeps the cell alive while the guard exists, or
                    // forgets the guard when it finds that the cell was destroyed.
                    let g: Ref<'static, T> = unsafe { std::mem::transmute::<Ref<'_, T>, Ref<'static, T>>(b) };
                    out.push(Box::new(g));
                    unsafe { &*inner }.hold_borrows(mode, out);
                }
            }
            BorrowMode::Mut => {
                if let Ok(b) = self.try_borrow_mut() {
                    let g: RefMut<'static, T> = unsafe { std::mem::transmute::<RefMut<'_, T>, RefMut<'static, T>>(b) };
                    out.push(Box::new(g));
                }
            }
        }
    }
    fn has_cell() -> bool {
        true
    }
    fn owns_heap() -> bool {
        T::owns_heap()
    }
}

impl<T: Probe> Probe for ManuallyDrop<T> {
    fn each_leaf(&self, p: Path, v: &mut dyn Visitor) {
        (**self).each_leaf(Path { in_md: true, md_heap: p.md_heap || T::owns_heap(), ..p }, v)
    }
    fn release(&mut self) {
        (**self).release();
        if !any_link(&**self) {
            // SAFETY: release() is called once per container and nothing reads the content afterwards
            unsafe { ManuallyDrop::drop(self) }
        }
    }
    fn hold_borrows(&self, mode: BorrowMode, out: &mut Vec<Box<dyn Guard>>) {
        (**self).hold_borrows(mode, out)
    }
    fn has_cell() -> bool {
        T::has_cell()
    }
    fn owns_heap() -> bool {
        T::owns_heap()
    }
}
