//! Shared helpers of the C16 / C20 harness binaries.
use std::cell::RefCell;
use std::panic;

thread_local! {
    static LAST_PANIC: RefCell<String> = RefCell::new(String::new());
}

/// Installs a panic hook that prints nothing and remembers the message + location of the last panic
/// (the harness provokes panics on purpose and catches them).
pub fn install_silent_hook() {
    panic::set_hook(Box::new(|info| {
        let msg = if let Some(s) = info.payload().downcast_ref::<&str>() {
            (*s).to_string()
        } else if let Some(s) = info.payload().downcast_ref::<String>() {
            s.clone()
        } else {
            "<non-string panic payload>".to_string()
        };
        let loc = info.location().map(|l| format!("{}:{}", l.file(), l.line())).unwrap_or_default();
        let _ = LAST_PANIC.try_with(|p| {
            if let Ok(mut p) = p.try_borrow_mut() {
                *p = format!("{} @ {}", msg, loc);
            }
        });
    }));
}

pub fn last_panic() -> String {
    LAST_PANIC.try_with(|p| p.try_borrow().map(|s| s.clone()).unwrap_or_default()).unwrap_or_default()
}

/// Switches automatic collection off (a no-op without the `auto-collect` feature).
pub fn auto_collect_off() {
    #[cfg(feature = "auto-collect")]
    {
        let _ = rust_cc::config::config(|c| c.set_auto_collect(false));
    }
}

/// `collect_cycles()` until a call neither changes the managed byte count nor leaves anything buffered
/// (at most 64 calls). Returns the number of calls, or None when the cap was hit.
pub fn collect_until_quiet() -> Option<u32> {
    let mut n = 0;
    loop {
        let before = rust_cc::state::allocated_bytes().unwrap_or(usize::MAX);
        rust_cc::collect_cycles();
        n += 1;
        let after = rust_cc::state::allocated_bytes().unwrap_or(usize::MAX);
        let buffered = rust_cc::state::buffered_objects_count().unwrap_or(0);
        if before == after && buffered == 0 {
            return Some(n);
        }
        if n >= 64 {
            return None;
        }
    }
}

pub fn features_string() -> String {
    let mut v: Vec<&str> = Vec::new();
    if cfg!(feature = "finalization") {
        v.push("finalization");
    }
    if cfg!(feature = "auto-collect") {
        v.push("auto-collect");
    }
    if cfg!(feature = "weak-ptrs") {
        v.push("weak-ptrs");
    }
    if cfg!(feature = "cleaners") {
        v.push("cleaners");
    }
    if v.is_empty() {
        "none".to_string()
    } else {
        v.join(",")
    }
}

pub fn profile_string() -> &'static str {
    if cfg!(debug_assertions) {
        "debug"
    } else {
        "release"
    }
}
