//! C16: reference counts saturate with a panic instead of wrapping.
//!
//! Every scenario takes ONE allocation of the real crate to one of the limits given by the statement
//! (16382 `Cc`, 32767 `Weak`; the constants are NOT read from the crate) through one acquisition route,
//! probes the boundary (3 below, at, 5 above, cross probes with the other acquiring calls, hysteresis after
//! releasing a few handles), and then lets the object die and checks it is finalized / dropped / freed once.
//!
//! argv: [--only <scenario id>] [--shard i --nshards n] [--reduced] [--stride n] [--timing] [--list] [--noop]
use std::cell::{Cell, RefCell};
use std::panic::{catch_unwind, AssertUnwindSafe};

use p_ptr::*;
#[cfg(feature = "weak-ptrs")]
use rust_cc::weak::Weak;
use rust_cc::{collect_cycles, Cc, Context, Finalize, Trace};
use vcommon::report::{Args, Report};
use vcommon::rng::Fnv;
use vcommon::Json;

/// Limits as given by the property statement.
const STRONG_MAX: i64 = 16382;
const WEAK_MAX: i64 = 32767;

const P: &str = "C16";

// ------------------------------------------------------------------------------------------------
// payload

thread_local! {
    static FIN: RefCell<Vec<u32>> = RefCell::new(Vec::new());
    static DROPS: RefCell<Vec<u32>> = RefCell::new(Vec::new());
    static RES: RefCell<Vec<Cc<Node>>> = RefCell::new(Vec::new());
    static CB_ERR: Cell<u32> = Cell::new(0);
}

fn cb_err() {
    let _ = CB_ERR.try_with(|c| c.set(c.get() + 1));
}

fn bump(which: &'static std::thread::LocalKey<RefCell<Vec<u32>>>, id: usize) {
    let ok = which
        .try_with(|v| match v.try_borrow_mut() {
            Ok(mut v) => match v.get_mut(id) {
                Some(x) => {
                    *x += 1;
                    true
                }
                None => false,
            },
            Err(_) => false,
        })
        .unwrap_or(false);
    if !ok {
        cb_err();
    }
}

fn read(which: &'static std::thread::LocalKey<RefCell<Vec<u32>>>, id: usize) -> u32 {
    which.with(|v| v.borrow().get(id).copied().unwrap_or(u32::MAX))
}

fn new_id() -> usize {
    FIN.with(|v| v.borrow_mut().push(0));
    DROPS.with(|v| {
        let mut v = v.borrow_mut();
        v.push(0);
        v.len() - 1
    })
}

struct Node {
    id: usize,
    edge: RefCell<Option<Cc<Node>>>,
    resurrect: Cell<bool>,
}

unsafe impl Trace for Node {
    fn trace(&self, ctx: &mut Context<'_>) {
        self.edge.trace(ctx);
    }
}

impl Finalize for Node {
    fn finalize(&self) {
        bump(&FIN, self.id);
        if self.resurrect.replace(false) {
            // walk the edges until a pointer to this very object is found (self edge: 1 step, pair: 2 steps)
            let mut cur: Option<Cc<Node>> = self.edge.try_borrow().ok().and_then(|e| e.clone());
            for _ in 0..4 {
                match cur {
                    Some(c) if c.id == self.id => {
                        let ok = RES
                            .try_with(|r| match r.try_borrow_mut() {
                                Ok(mut r) => {
                                    r.push(c.clone());
                                    true
                                }
                                Err(_) => false,
                            })
                            .unwrap_or(false);
                        if !ok {
                            cb_err();
                        }
                        return;
                    }
                    Some(c) => {
                        cur = c.edge.try_borrow().ok().and_then(|e| e.clone());
                    }
                    None => break,
                }
            }
            cb_err();
        }
    }
}

impl Drop for Node {
    fn drop(&mut self) {
        bump(&DROPS, self.id);
    }
}

fn new_node() -> (Cc<Node>, usize) {
    let id = new_id();
    (Cc::new(Node { id, edge: RefCell::new(None), resurrect: Cell::new(false) }), id)
}

fn set_edge(from: &Cc<Node>, to: Option<Cc<Node>>) {
    // write, release the borrow, then drop the old value
    let old = {
        let mut b = from.edge.borrow_mut();
        std::mem::replace(&mut *b, to)
    };
    drop(old);
}

// ------------------------------------------------------------------------------------------------
// scenarios

#[derive(Clone, Copy, PartialEq, Eq, Debug)]
enum Lim {
    Strong,
    Weak,
}

#[derive(Clone, Copy, PartialEq, Eq, Debug)]
enum Op {
    Clone,
    Upgrade,
    Downgrade,
    WClone,
}

impl Op {
    fn name(self) -> &'static str {
        match self {
            Op::Clone => "clone",
            Op::Upgrade => "upgrade",
            Op::Downgrade => "downgrade",
            Op::WClone => "wclone",
        }
    }
}

#[derive(Clone, Debug)]
struct Scn {
    route: &'static str,
    sr: bool,
    fin: bool,
    cyc: &'static str, // none | self | pair
}

impl Scn {
    fn variant(&self) -> String {
        format!("sr{}-fin{}-cyc{}", self.sr as u8, self.fin as u8, self.cyc)
    }
    fn id(&self) -> String {
        format!("{}-{}", self.route, self.variant())
    }
    fn limits(&self) -> Vec<Lim> {
        match self.route {
            "clone" | "upgrade" | "alt" => vec![Lim::Strong],
            "downgrade" | "wclone" | "wmixed" => vec![Lim::Weak],
            _ => vec![Lim::Weak, Lim::Strong], // "both"
        }
    }
    /// The acquiring call used for the n-th acquisition towards `lim`.
    fn route_code(&self) -> u8 {
        match self.route {
            "clone" => 0,
            "upgrade" => 1,
            "alt" => 2,
            "downgrade" => 3,
            "wclone" => 4,
            "wmixed" => 5,
            _ => 6, // both
        }
    }
    /// The acquiring call used for the n-th acquisition towards `lim` (`code` = route_code()).
    fn op_of(code: u8, lim: Lim, n: u64, have_weak: bool) -> Op {
        match (code, lim) {
            (0, _) => Op::Clone,
            (1, _) => Op::Upgrade,
            (2, _) | (6, Lim::Strong) => {
                if n % 2 == 0 {
                    Op::Clone
                } else {
                    Op::Upgrade
                }
            }
            (3, _) => Op::Downgrade,
            (4, _) => {
                if have_weak {
                    Op::WClone
                } else {
                    Op::Downgrade
                }
            }
            _ => {
                // wmixed, both/weak
                if n % 2 == 0 || !have_weak {
                    Op::Downgrade
                } else {
                    Op::WClone
                }
            }
        }
    }
    fn op(&self, lim: Lim, n: u64, have_weak: bool) -> Op {
        Self::op_of(self.route_code(), lim, n, have_weak)
    }
}

fn scenarios() -> Vec<Scn> {
    let weak = cfg!(feature = "weak-ptrs");
    let fins: &[bool] = if cfg!(feature = "finalization") { &[false, true] } else { &[false] };
    let mut v = Vec::new();
    for cyc in ["none", "self", "pair"] {
        for &fin in fins {
            v.push(Scn { route: "clone", sr: false, fin, cyc });
            if weak {
                v.push(Scn { route: "clone", sr: true, fin, cyc });
                v.push(Scn { route: "upgrade", sr: true, fin, cyc });
                v.push(Scn { route: "alt", sr: true, fin, cyc });
                v.push(Scn { route: "downgrade", sr: false, fin, cyc });
                v.push(Scn { route: "downgrade", sr: true, fin, cyc });
                v.push(Scn { route: "wclone", sr: true, fin, cyc });
                v.push(Scn { route: "wmixed", sr: true, fin, cyc });
                v.push(Scn { route: "both", sr: true, fin, cyc });
            }
        }
    }
    v
}

// ------------------------------------------------------------------------------------------------
// the monitored object and what is observable about it

struct World {
    root: Cc<Node>,
    handles: Vec<Cc<Node>>,
    #[cfg(feature = "weak-ptrs")]
    weaks: Vec<Weak<Node>>,
    /// The first Weak ever obtained: the handle the Weak-side observers and upgrade / Weak::clone go through.
    /// Kept outside the Vec (a `first()` on the Vec would re-borrow 32767 elements per call, which Miri pays for).
    #[cfg(feature = "weak-ptrs")]
    probe: Option<Weak<Node>>,
}

/// [Cc::strong_count, Cc::weak_count, Weak::strong_count, Weak::weak_count, already_finalized]; -1 = not observable
/// in this build / scenario (no Weak exists, feature off).
#[derive(Clone, Copy, PartialEq, Eq, Debug)]
struct Obs([i64; 5]);

impl Obs {
    fn count(&self, lim: Lim) -> i64 {
        match lim {
            Lim::Strong => self.0[0],
            Lim::Weak => self.0[1],
        }
    }
    fn plus(&self, lim: Lim, d: i64) -> Obs {
        let mut o = *self;
        match lim {
            Lim::Strong => {
                o.0[0] += d;
                if o.0[2] >= 0 {
                    o.0[2] += d;
                }
            }
            Lim::Weak => {
                o.0[1] += d;
                if o.0[3] >= 0 {
                    o.0[3] += d;
                }
            }
        }
        o
    }
    /// Equality on what `expect` could observe (-1 = was not observable when `expect` was taken).
    fn matches(&self, expect: &Obs) -> bool {
        (0..5).all(|i| expect.0[i] < 0 || expect.0[i] == self.0[i])
    }
    fn show(&self) -> String {
        format!(
            "strong_count={} weak_count={} Weak::strong_count={} Weak::weak_count={} already_finalized={}",
            self.0[0], self.0[1], self.0[2], self.0[3], self.0[4]
        )
    }
}

impl World {
    #[cfg(feature = "weak-ptrs")]
    fn push_weak(&mut self, w: Weak<Node>) {
        if self.probe.is_none() {
            self.probe = Some(w);
        } else {
            self.weaks.push(w);
        }
    }

    fn have_weak(&self) -> bool {
        #[cfg(feature = "weak-ptrs")]
        {
            self.probe.is_some()
        }
        #[cfg(not(feature = "weak-ptrs"))]
        {
            false
        }
    }

    fn observe_raw(&self) -> Obs {
        let mut o = [-1i64; 5];
        o[0] = self.root.strong_count() as i64;
        #[cfg(feature = "weak-ptrs")]
        {
            o[1] = self.root.weak_count() as i64;
            if let Some(w) = self.probe.as_ref() {
                o[2] = w.strong_count() as i64;
                o[3] = w.weak_count() as i64;
            }
        }
        #[cfg(feature = "finalization")]
        {
            o[4] = self.root.already_finalized() as i64;
        }
        Obs(o)
    }

    /// A panic inside an observer is reported, not propagated.
    fn observe(&self) -> Result<Obs, String> {
        catch_unwind(AssertUnwindSafe(|| self.observe_raw())).map_err(|_| last_panic())
    }

    fn light_raw(&self, lim: Lim) -> i64 {
        match lim {
            Lim::Strong => self.root.strong_count() as i64,
            Lim::Weak => {
                #[cfg(feature = "weak-ptrs")]
                {
                    self.root.weak_count() as i64
                }
                #[cfg(not(feature = "weak-ptrs"))]
                {
                    -1
                }
            }
        }
    }

    /// Only the counter that is being driven (cheap; used between full observations when --stride > 1).
    fn observe_light(&self, lim: Lim) -> Result<i64, String> {
        catch_unwind(AssertUnwindSafe(|| self.light_raw(lim))).map_err(|_| last_panic())
    }

    /// The acquiring call itself, not wrapped: true = got a handle.
    fn acquire_uncaught(&mut self, op: Op) -> bool {
        match op {
            Op::Clone => {
                let c = self.root.clone();
                self.handles.push(c);
                true
            }
            #[cfg(feature = "weak-ptrs")]
            Op::Upgrade => match self.probe.as_ref().and_then(|w| w.upgrade()) {
                Some(c) => {
                    self.handles.push(c);
                    true
                }
                None => false,
            },
            #[cfg(feature = "weak-ptrs")]
            Op::Downgrade => {
                let w = self.root.downgrade();
                self.push_weak(w);
                true
            }
            #[cfg(feature = "weak-ptrs")]
            Op::WClone => match self.probe.as_ref().map(|w| w.clone()) {
                Some(w) => {
                    self.push_weak(w);
                    true
                }
                None => false,
            },
            #[cfg(not(feature = "weak-ptrs"))]
            _ => false,
        }
    }

    /// Ok(true): acquired one more handle; Ok(false): the call returned normally without a handle
    /// (upgrade -> None); Err: the call panicked (message).
    fn try_acquire(&mut self, op: Op) -> Result<bool, String> {
        enum Got {
            S(Cc<Node>),
            #[cfg(feature = "weak-ptrs")]
            W(Weak<Node>),
            Nothing,
        }
        let r = catch_unwind(AssertUnwindSafe(|| match op {
            Op::Clone => Got::S(self.root.clone()),
            #[cfg(feature = "weak-ptrs")]
            Op::Upgrade => match self.probe.as_ref() {
                Some(w) => match w.upgrade() {
                    Some(c) => Got::S(c),
                    None => Got::Nothing,
                },
                None => Got::Nothing,
            },
            #[cfg(feature = "weak-ptrs")]
            Op::Downgrade => Got::W(self.root.downgrade()),
            #[cfg(feature = "weak-ptrs")]
            Op::WClone => match self.probe.as_ref() {
                Some(w) => Got::W(w.clone()),
                None => Got::Nothing,
            },
            #[cfg(not(feature = "weak-ptrs"))]
            _ => Got::Nothing,
        }));
        match r {
            Ok(Got::S(c)) => {
                self.handles.push(c);
                Ok(true)
            }
            #[cfg(feature = "weak-ptrs")]
            Ok(Got::W(w)) => {
                self.push_weak(w);
                Ok(true)
            }
            Ok(Got::Nothing) => Ok(false),
            Err(_) => Err(last_panic()),
        }
    }

    /// Drops one handle counted by `lim` (never the probe Weak at index 0). Returns false if there is none.
    fn release(&mut self, lim: Lim) -> bool {
        match lim {
            Lim::Strong => match self.handles.pop() {
                Some(c) => {
                    drop(c);
                    true
                }
                None => false,
            },
            Lim::Weak => {
                #[cfg(feature = "weak-ptrs")]
                {
                    if !self.weaks.is_empty() {
                        let w = self.weaks.pop();
                        drop(w);
                        return true;
                    }
                }
                false
            }
        }
    }

    /// After an oracle fired the allocation may be in an inconsistent state: nothing of it is touched again.
    fn leak(self) {
        std::mem::forget(self.root);
        std::mem::forget(self.handles);
        #[cfg(feature = "weak-ptrs")]
        std::mem::forget(self.weaks);
        #[cfg(feature = "weak-ptrs")]
        std::mem::forget(self.probe);
    }
}

/// Reason why a scenario stopped early.
enum Stop {
    Violated,
    Inconclusive(String),
}

struct Run<'a> {
    scn: &'a Scn,
    rep: &'a mut Report,
    replay: Vec<String>,
    stride: u64,
    reduced: bool,
    probes: u64,
    full_steps: u64,
    timing: bool,
    t0: std::time::Instant,
    panics: u64,
    acquisitions: u64,
    limits_hit: u32,
    ops_used: Vec<&'static str>,
    ops_mask: u8,
    code: u8,
}

impl<'a> Run<'a> {
    fn viol(&mut self, oracle: &str, extra: &str, detail: String) -> Stop {
        let sig = if extra.is_empty() {
            format!("{}:{}:{}:{}", P, oracle, self.scn.route, self.scn.variant())
        } else {
            format!("{}:{}:{}:{}:{}", P, oracle, self.scn.route, extra, self.scn.variant())
        };
        let detail = format!("scenario {} [{} {}]: {}", self.scn.id(), features_string(), profile_string(), detail);
        self.rep.viol(P, oracle, &sig, &detail, &self.replay);
        Stop::Violated
    }

    fn limit_of(lim: Lim) -> i64 {
        match lim {
            Lim::Strong => STRONG_MAX,
            Lim::Weak => WEAK_MAX,
        }
    }

    fn note_op(&mut self, op: Op) {
        let bit = 1u8 << (op as u8);
        if self.ops_mask & bit == 0 {
            self.ops_mask |= bit;
            self.ops_used.push(op.name());
        }
    }

    /// One acquisition that must succeed and move exactly the driven counter by exactly one.
    fn step_up(&mut self, w: &mut World, lim: Lim, op: Op, full: bool, near: bool, known: i64) -> Result<i64, Stop> {
        let limit = Self::limit_of(lim);
        let new_count;
        if full {
            let before = w.observe().map_err(|m| self.viol("unexpected_panic", "observe", m))?;
            let r = w.try_acquire(op);
            self.after_success(w, lim, op, r, before.count(lim), limit)?;
            let after = w.observe().map_err(|m| self.viol("unexpected_panic", "observe", m))?;
            let expect = before.plus(lim, 1);
            if near {
                self.probes += 1;
                self.rep.evaluations += 1;
            } else {
                self.full_steps += 1;
            }
            if !after.matches(&expect) {
                return Err(self.viol(
                    "count_step",
                    op.name(),
                    format!("successful {} changed the observable state from [{}] to [{}], expected [{}]", op.name(), before.show(), after.show(), expect.show()),
                ));
            }
            new_count = after.count(lim);
        } else {
            // far from the limit, between two full observations: only the driven counter is read. With --reduced
            // (Miri) the calls are not wrapped one by one: a panic here unwinds to the scenario's catch_unwind.
            let before = known;
            let r = if self.reduced { Ok(w.acquire_uncaught(op)) } else { w.try_acquire(op) };
            self.after_success(w, lim, op, r, before, limit)?;
            // with --reduced the counter is read back every 32nd step only (it must then show the sum of the steps)
            let after = if self.reduced {
                if self.acquisitions % 32 == 31 {
                    w.light_raw(lim)
                } else {
                    before + 1
                }
            } else {
                w.observe_light(lim).map_err(|m| self.viol("unexpected_panic", "observe", m))?
            };
            new_count = after;
            if after != before + 1 {
                return Err(self.viol(
                    "count_step",
                    op.name(),
                    format!("successful {} moved the {:?} count from {} to {}", op.name(), lim, before, after),
                ));
            }
        }
        self.acquisitions += 1;
        self.note_op(op);
        Ok(new_count)
    }

    fn after_success(&mut self, _w: &World, lim: Lim, op: Op, r: Result<bool, String>, before: i64, limit: i64) -> Result<(), Stop> {
        match r {
            Ok(true) => Ok(()),
            Ok(false) => Err(Stop::Inconclusive(format!(
                "{} returned no handle at {:?} count {} < {} although the object is alive (not a C16 matter)",
                op.name(), lim, before, limit
            ))),
            Err(m) => Err(self.viol(
                "early_panic",
                op.name(),
                format!("{} panicked at {:?} count {} which is below the supported maximum {}: {}", op.name(), lim, before, limit, m),
            )),
        }
    }

    /// One acquisition attempt at the limit: must panic, and nothing observable may change.
    fn probe_over(&mut self, w: &mut World, lim: Lim, op: Op) -> Result<(), Stop> {
        let before = w.observe().map_err(|m| self.viol("unexpected_panic", "observe", m))?;
        let r = w.try_acquire(op);
        self.probes += 1;
        self.rep.evaluations += 1;
        self.note_op(op);
        match r {
            Ok(got) => {
                let after = w.observe().map(|o| o.show()).unwrap_or_else(|m| format!("<observer panicked: {}>", m));
                Err(self.viol(
                    "no_panic",
                    op.name(),
                    format!(
                        "{} returned normally ({}) with the {:?} count already at the maximum {}; before [{}], after [{}]",
                        op.name(), if got { "a new handle" } else { "no handle" }, lim, Self::limit_of(lim), before.show(), after
                    ),
                ))
            }
            Err(msg) => {
                self.panics += 1;
                let after = w.observe().map_err(|m| self.viol("unexpected_panic", "observe", m))?;
                if !after.matches(&before) || !before.matches(&after) {
                    return Err(self.viol(
                        "count_changed_after_panic",
                        "",
                        format!("{} panicked ({}) but the observable state went from [{}] to [{}]", op.name(), msg, before.show(), after.show()),
                    ));
                }
                Ok(())
            }
        }
    }

    fn climb_and_probe(&mut self, w: &mut World, lim: Lim) -> Result<(), Stop> {
        let limit = Self::limit_of(lim);
        let start = w.observe().map_err(|m| self.viol("unexpected_panic", "observe", m))?;
        let mut n: u64 = 0;
        // ---- climb
        let mut cur = w.observe_light(lim).map_err(|m| self.viol("unexpected_panic", "observe", m))?;
        loop {
            if cur >= limit {
                break;
            }
            let near = cur + 3 >= limit;
            let full = near || cur + 8 >= limit || n < 4 || n % self.stride == 0;
            let op = Scn::op_of(self.code, lim, n, w.have_weak());
            cur = self.step_up(w, lim, op, full, near, cur)?;
            n += 1;
            if self.timing && n % 4096 == 0 {
                eprintln!("[timing] {} {:?} n={} t={:?}", self.scn.id(), lim, n, self.t0.elapsed());
            }
            if n > 40_000 {
                return Err(Stop::Inconclusive("climb did not reach the limit within 40000 acquisitions".into()));
            }
        }
        let at = w.observe().map_err(|m| self.viol("unexpected_panic", "observe", m))?;
        // nothing but the driven counter moved during the whole climb
        let expect = start.plus(lim, at.count(lim) - start.count(lim));
        // (the probe Weak may have come into existence during the climb: compare only what was observable at the start)
        if at.count(lim) != limit || !at.matches(&expect) {
            return Err(self.viol(
                "climb_state",
                "",
                format!("after {} acquisitions: [{}], expected [{}] (start [{}])", n, at.show(), expect.show(), start.show()),
            ));
        }
        self.limits_hit += 1;
        self.rep.count(if lim == Lim::Strong { "strong_limit_reached" } else { "weak_limit_reached" }, 1);

        // ---- five attempts above the limit through the route's own calls
        for k in 0..5u64 {
            let op = self.scn.op(lim, n + k, w.have_weak());
            self.probe_over(w, lim, op)?;
        }
        // ---- cross probes: every other call that acquires this kind of handle must refuse as well
        let others: &[Op] = match lim {
            Lim::Strong => &[Op::Clone, Op::Upgrade],
            Lim::Weak => &[Op::Downgrade, Op::WClone],
        };
        for &op in others {
            let applicable = match op {
                Op::Clone => true,
                Op::Downgrade => cfg!(feature = "weak-ptrs"),
                Op::Upgrade | Op::WClone => w.have_weak(),
            };
            if applicable {
                self.probe_over(w, lim, op)?;
            }
        }
        // ---- hysteresis: after dropping k handles exactly k more acquisitions succeed, then it refuses again
        let rounds: &[u64] = if self.reduced { &[2] } else { &[1, 3] };
        for &k in rounds {
            let before = w.observe().map_err(|m| self.viol("unexpected_panic", "observe", m))?;
            let mut released = 0;
            for _ in 0..k {
                if w.release(lim) {
                    released += 1;
                }
            }
            let after = w.observe().map_err(|m| self.viol("unexpected_panic", "observe", m))?;
            self.rep.evaluations += 1;
            if !after.matches(&before.plus(lim, -(released as i64))) {
                return Err(self.viol(
                    "count_after_release",
                    "",
                    format!("dropping {} handles at the limit: [{}] -> [{}]", released, before.show(), after.show()),
                ));
            }
            for j in 0..released {
                let op = self.scn.op(lim, n + j, w.have_weak());
                self.step_up(w, lim, op, true, true, 0)?;
            }
            for j in 0..2u64 {
                let op = self.scn.op(lim, n + released + j, w.have_weak());
                self.probe_over(w, lim, op)?;
            }
            self.rep.count("hysteresis_rounds", 1);
        }
        // ---- a collection while one below the limit (the drop buffers the object) leaves everything as it is
        if !self.reduced && w.release(lim) {
            let before = w.observe().map_err(|m| self.viol("unexpected_panic", "observe", m))?;
            let r = catch_unwind(AssertUnwindSafe(collect_cycles));
            if r.is_err() {
                return Err(self.viol("unexpected_panic", "collect", format!("collect_cycles() panicked with the count one below the limit: {}", last_panic())));
            }
            let after = w.observe().map_err(|m| self.viol("unexpected_panic", "observe", m))?;
            self.rep.evaluations += 1;
            if !after.matches(&before) {
                return Err(self.viol(
                    "count_changed_by_collection",
                    "",
                    format!("collect_cycles() one below the limit: [{}] -> [{}]", before.show(), after.show()),
                ));
            }
            let op = self.scn.op(lim, n, w.have_weak());
            self.step_up(w, lim, op, true, true, 0)?;
            let op = self.scn.op(lim, n + 1, w.have_weak());
            self.probe_over(w, lim, op)?;
        }
        Ok(())
    }
}

fn expected_finalizations() -> u32 {
    if cfg!(feature = "finalization") {
        1
    } else {
        0
    }
}

/// Builds the object of the scenario; returns (world, target id, partner id).
fn build(scn: &Scn) -> Result<(World, usize, Option<usize>), Stop> {
    let (root, tid) = new_node();
    let mut pid = None;
    // a finalized object must have been resurrected through a cycle edge: build one even for cyc=none (cut below)
    let shape = if scn.fin && scn.cyc == "none" { "self" } else { scn.cyc };
    match shape {
        "self" => set_edge(&root, Some(root.clone())),
        "pair" => {
            let (partner, p) = new_node();
            pid = Some(p);
            set_edge(&partner, Some(root.clone()));
            set_edge(&root, Some(partner));
        }
        _ => {}
    }
    #[allow(unused_mut)]
    let mut root = root;
    if scn.fin {
        #[cfg(feature = "finalization")]
        {
            root.resurrect.set(true);
            drop(root);
            collect_cycles();
            let back = RES.with(|r| r.borrow_mut().pop());
            root = match back {
                Some(c) => c,
                None => return Err(Stop::Inconclusive("preparation: the object was not resurrected by its finalizer".into())),
            };
            if !root.already_finalized() || read(&FIN, tid) != 1 {
                let m = format!(
                    "preparation: after dying once and being resurrected already_finalized()={} finalize calls={}",
                    root.already_finalized(), read(&FIN, tid)
                );
                std::mem::forget(root);
                return Err(Stop::Inconclusive(m));
            }
            if scn.cyc == "none" {
                set_edge(&root, None);
            }
        }
        #[cfg(not(feature = "finalization"))]
        {
            return Err(Stop::Inconclusive("finalized variant needs the finalization feature".into()));
        }
    }
    let w = World {
        root,
        handles: Vec::with_capacity(STRONG_MAX as usize + 64),
        #[cfg(feature = "weak-ptrs")]
        weaks: Vec::with_capacity(WEAK_MAX as usize + 64),
        #[cfg(feature = "weak-ptrs")]
        probe: None,
    };
    Ok((w, tid, pid))
}

fn run_scenario(scn: &Scn, rep: &mut Report, args: &Args) -> Result<(), Stop> {
    let reduced = args.flag("--reduced");
    let stride = args.u64("--stride", if reduced { 256 } else { 1 }).max(1);
    let mut replay = vec!["--only".to_string(), scn.id()];
    if reduced {
        replay.push("--reduced".into());
    }
    if args.get("--stride").is_some() {
        replay.push("--stride".into());
        replay.push(stride.to_string());
    }
    let mut run = Run { scn, rep, replay, stride, reduced, probes: 0, full_steps: 0, timing: args.flag("--timing"), t0: std::time::Instant::now(), panics: 0, acquisitions: 0, limits_hit: 0, ops_used: Vec::new(), ops_mask: 0, code: scn.route_code() };

    let baseline = rust_cc::state::allocated_bytes().unwrap_or(usize::MAX);
    let (mut w, tid, pid) = build(scn)?;
    let fin_at_start = w.observe().map(|o| o.0[4]).unwrap_or(-1);

    // side record: some Weak created before the climb
    #[cfg(feature = "weak-ptrs")]
    if scn.sr {
        let first = w.root.downgrade();
        match scn.route {
            // for the downgrade-only route the earlier Weak is gone again: the side record exists with count 0
            "downgrade" => drop(first),
            _ => w.push_weak(first),
        }
    }

    let mut res = Ok(());
    for lim in scn.limits() {
        res = run.climb_and_probe(&mut w, lim);
        if res.is_err() {
            break;
        }
    }
    if let Err(stop) = res {
        w.leak();
        finish_counts(&mut run, false);
        return Err(stop);
    }

    if run.timing {
        eprintln!("[timing] {} boundary work done t={:?}", scn.id(), run.t0.elapsed());
    }
    // ---- the object is still correctly managed: let it die
    let edges_in = if scn.cyc == "none" { 0 } else { 1 };
    #[cfg(feature = "weak-ptrs")]
    {
        // keep at most three Weak handles across the death
        while w.weaks.len() > 2 {
            let x = w.weaks.pop();
            drop(x);
        }
    }
    while let Some(c) = w.handles.pop() {
        drop(c);
    }
    let o = match w.observe() {
        Ok(o) => o,
        Err(m) => {
            let s = run.viol("unexpected_panic", "observe", m);
            w.leak();
            finish_counts(&mut run, false);
            return Err(s);
        }
    };
    run.rep.evaluations += 1;
    #[cfg(feature = "weak-ptrs")]
    let kept_weaks: i64 = w.weaks.len() as i64 + w.probe.is_some() as i64;
    #[cfg(not(feature = "weak-ptrs"))]
    let kept_weaks: i64 = -1;
    let bad_strong = o.0[0] != 1 + edges_in || (o.0[2] >= 0 && o.0[2] != o.0[0]);
    let bad_weak = kept_weaks >= 0 && (o.0[1] != kept_weaks || (o.0[3] >= 0 && o.0[3] != kept_weaks));
    let bad_fin = o.0[4] != fin_at_start;
    if bad_strong || bad_weak || bad_fin {
        let s = run.viol(
            "count_after_release",
            "final",
            format!(
                "after dropping every handle but one (+{} cycle edge) and keeping {} Weak: [{}], already_finalized at start {}",
                edges_in, kept_weaks, o.show(), fin_at_start
            ),
        );
        w.leak();
        finish_counts(&mut run, false);
        return Err(s);
    }

    #[cfg(feature = "weak-ptrs")]
    let World { root, handles, mut weaks, probe } = w;
    #[cfg(feature = "weak-ptrs")]
    weaks.extend(probe);
    #[cfg(not(feature = "weak-ptrs"))]
    let World { root, handles } = w;
    drop(handles);
    let died = catch_unwind(AssertUnwindSafe(move || {
        drop(root);
        collect_until_quiet()
    }));
    let quiet = match died {
        Ok(q) => q,
        Err(_) => {
            #[cfg(feature = "weak-ptrs")]
            std::mem::forget(weaks);
            let s = run.viol("unexpected_panic", "death", format!("dropping the last handle / collect_cycles() panicked: {}", last_panic()));
            finish_counts(&mut run, false);
            return Err(s);
        }
    };
    if quiet.is_none() {
        run.rep.inconclusive(format!("{}: 64 collections did not reach a quiet state", scn.id()));
    }
    let mut failed = false;
    let mut ids = vec![("target", tid)];
    if let Some(p) = pid {
        ids.push(("partner", p));
    }
    for (who, id) in ids {
        let f = read(&FIN, id);
        let d = read(&DROPS, id);
        run.rep.evaluations += 2;
        if f != expected_finalizations() {
            run.viol("finalize_count", who, format!("{} finalized {} times over its life, expected {} (finalized before the climb: {})", who, f, expected_finalizations(), scn.fin));
            failed = true;
        }
        if d != 1 {
            run.viol("drop_count", who, format!("{} dropped {} times, expected exactly once", who, d));
            failed = true;
        }
        if d == 1 {
            run.rep.count("objects_collected", 1);
        }
    }
    let now = rust_cc::state::allocated_bytes().unwrap_or(usize::MAX);
    run.rep.evaluations += 1;
    if now != baseline {
        run.viol("not_freed", "", format!("allocated_bytes() is {} after the death of the object, {} before its creation", now, baseline));
        failed = true;
    }
    #[cfg(feature = "weak-ptrs")]
    {
        for (i, wk) in weaks.iter().enumerate() {
            let r = catch_unwind(AssertUnwindSafe(|| (wk.strong_count(), wk.upgrade().is_some())));
            run.rep.evaluations += 1;
            match r {
                Ok((0, false)) => {}
                Ok((sc, up)) => {
                    run.viol("weak_after_death", "", format!("kept Weak #{}: strong_count()={} upgrade().is_some()={} after the object died", i, sc, up));
                    failed = true;
                }
                Err(_) => {
                    run.viol("unexpected_panic", "weak_after_death", last_panic());
                    failed = true;
                }
            }
        }
        if failed {
            std::mem::forget(weaks);
        } else {
            drop(weaks);
        }
    }
    if run.timing {
        eprintln!("[timing] {} dead t={:?}", scn.id(), run.t0.elapsed());
    }
    let cb = CB_ERR.with(|c| c.replace(0));
    if cb != 0 {
        run.rep.inconclusive(format!("{}: {} callback bookkeeping errors", scn.id(), cb));
    }
    finish_counts(&mut run, !failed);
    if failed {
        Err(Stop::Violated)
    } else {
        Ok(())
    }
}

fn finish_counts(run: &mut Run<'_>, complete: bool) {
    run.rep.count("acquisitions", run.acquisitions);
    run.rep.count("panics_observed", run.panics);
    run.rep.count("boundary_probes", run.probes);
    run.rep.count("climb_steps_fully_observed", run.full_steps);
    run.rep.count("scenarios_run", 1);
    if complete {
        run.rep.count("scenarios_completed", 1);
    }
    for o in run.ops_used.clone() {
        run.rep.set_add("acquiring_calls", o);
    }
    let needed = run.scn.limits().len() as u32;
    if run.limits_hit >= needed && run.panics >= 1 {
        let mut h = Fnv::new();
        h.str(run.scn.route);
        h.str(&run.scn.variant());
        run.rep.nontrivial(h.finish());
        run.rep.set_add("routes", run.scn.route);
        for lim in run.scn.limits() {
            run.rep.set_add(if lim == Lim::Strong { "strong_routes" } else { "weak_routes" }, run.scn.route);
        }
        run.rep.set_add("variants", run.scn.variant());
    }
    let s = Json::obj()
        .set("scenario", run.scn.id())
        .set("acquisitions", run.acquisitions)
        .set("boundary_probes", run.probes)
        .set("panics_observed", run.panics)
        .set("limits_reached", run.limits_hit as u64)
        .set("calls", run.ops_used.iter().map(|s| Json::from(*s)).collect::<Vec<_>>())
        .set("features", features_string())
        .set("profile", profile_string());
    run.rep.sample(s);
}

// ------------------------------------------------------------------------------------------------
// extra scenario: the limit is reached through handles owned by the garbage itself, and the over-limit clone is attempted
// by a callback of the collection that reclaims it (the target is in the collector's lists at that moment)

pub struct GpTarget {
    pool: RefCell<Option<Cc<GpPool>>>,
}
pub struct GpPool {
    items: RefCell<Vec<Cc<GpTarget>>>,
}
unsafe impl Trace for GpTarget {
    fn trace(&self, ctx: &mut Context<'_>) {
        self.pool.trace(ctx);
    }
}
unsafe impl Trace for GpPool {
    fn trace(&self, ctx: &mut Context<'_>) {
        self.items.trace(ctx);
    }
}
impl Finalize for GpPool {}

thread_local! {
    /// (0 = probe did not run, 1 = the clone panicked, 2 = the clone returned, count before, count after)
    static GP: Cell<(u8, u32, u32)> = Cell::new((0, 0, 0));
}

fn gp_probe(t: &GpTarget) {
    let pool = match t.pool.try_borrow() {
        Ok(p) => p,
        Err(_) => return,
    };
    let Some(p) = pool.as_ref() else { return };
    let Ok(items) = p.items.try_borrow() else { return };
    let Some(first) = items.first() else { return };
    if GP.with(|g| g.get().0) != 0 {
        return;
    }
    let before = first.strong_count();
    let r = catch_unwind(AssertUnwindSafe(|| first.clone()));
    let after = first.strong_count();
    let code = match r {
        Ok(c) => {
            // never release a handle the counter may not know about
            std::mem::forget(c);
            2
        }
        Err(_) => 1,
    };
    GP.with(|g| g.set((code, before, after)));
}

impl Finalize for GpTarget {
    fn finalize(&self) {
        gp_probe(self);
    }
}

/// 16382 handles to one object, all owned by a container that forms a garbage cycle with it; the collection's finalizer
/// (feature finalization) attempts clone number 16383: it must panic and leave the count unchanged.
#[cfg(feature = "finalization")]
fn garbage_pool_scenario(rep: &mut Report) {
    let id_str = "garbagepool-fin".to_string();
    let replay = vec!["--only".to_string(), id_str.clone()];
    GP.with(|g| g.set((0, 0, 0)));
    let t = Cc::new(GpTarget { pool: RefCell::new(None) });
    let p = Cc::new(GpPool { items: RefCell::new(Vec::with_capacity(STRONG_MAX as usize)) });
    *t.pool.borrow_mut() = Some(p.clone());
    {
        let mut v = p.items.borrow_mut();
        for _ in 0..(STRONG_MAX - 1) {
            v.push(t.clone());
        }
        v.push(t); // the program's own handle moves into the container: 16382 handles, none held by the program
    }
    drop(p);
    collect_until_quiet();
    rep.evaluations += 1;
    rep.count("garbage_pool_probes", 1);
    let (code, before, after) = GP.with(|g| g.get());
    let mut viol = |rep: &mut Report, oracle: &str, detail: String| {
        rep.viol(P, oracle, &format!("{}:{}:garbagepool:fin", P, oracle), &format!("scenario {} [{} {}]: {}", id_str, features_string(), profile_string(), detail), &replay);
    };
    match code {
        0 => rep.inconclusive(format!("{}: the finalizer probe did not run", id_str)),
        1 => {
            rep.count("panics_observed", 1);
            if before as i64 != STRONG_MAX || after != before {
                viol(rep, "count_changed", format!("strong_count was {} before and {} after the refused clone made from a finalizer (expected {} both times)", before, after, STRONG_MAX));
            }
        }
        _ => viol(rep, "no_panic", format!("Cc::clone number {} made from a finalizer of the collection that reclaims the object returned instead of panicking (strong_count {} before, {} after)", STRONG_MAX + 1, before, after)),
    }
}

/// A panic that escaped a scenario: the crate's own messages (its panicking entry points are `#[track_caller]`, so
/// the location is in this file) are the crate's behaviour; anything else raised from this file is a harness bug.
/// Weak limit reached on an allocation whose value is already gone (by reference counting, by the collector, by
/// try_unwrap): the side record is all that is left, Weak::clone must still panic at 32767 with the count unchanged,
/// and no Weak may ever come back to life (strong_count 0, upgrade None throughout).
#[cfg(feature = "weak-ptrs")]
fn dead_value_scenario(how: &'static str, rep: &mut Report, reduced: bool) {
    let id_str = format!("deadweak-{}", how);
    let replay = vec!["--only".to_string(), id_str.clone()];
    let mut viol = |rep: &mut Report, oracle: &str, detail: String| {
        rep.viol(P, oracle, &format!("{}:{}:wclone_dead:{}", P, oracle, how), &format!("scenario {} [{} {}]: {}", id_str, features_string(), profile_string(), detail), &replay);
    };
    let (cc, id) = new_node();
    let w0 = cc.downgrade();
    match how {
        "rc" => drop(cc),
        "collector" => {
            set_edge(&cc, Some(cc.clone()));
            drop(cc);
            collect_until_quiet();
        }
        _ => match cc.try_unwrap() {
            Ok(v) => drop(v),
            Err(_) => {
                viol(rep, "setup", "try_unwrap of a unique Cc failed".into());
                return;
            }
        },
    }
    if read(&DROPS, id) != 1 {
        viol(rep, "setup", format!("value not dropped exactly once before the climb ({} drops)", read(&DROPS, id)));
        return;
    }
    let dead = |w: &Weak<Node>| w.strong_count() == 0 && w.upgrade().is_none();
    let mut weaks: Vec<Weak<Node>> = Vec::with_capacity(WEAK_MAX as usize + 8);
    let mut acquisitions = 0u64;
    let mut panics = 0u64;
    let mut probes = 0u64;
    // climb
    while (weaks.len() as i64) < WEAK_MAX - 1 {
        let before = w0.weak_count() as i64;
        let r = catch_unwind(AssertUnwindSafe(|| w0.clone()));
        match r {
            Ok(w) => weaks.push(w),
            Err(_) => {
                viol(rep, "early_panic", format!("Weak::clone panicked at weak count {} (limit {})", before, WEAK_MAX));
                leak_all(weaks, w0);
                return;
            }
        }
        acquisitions += 1;
        let n = weaks.len() as i64 + 1;
        let check = !reduced || n % 256 == 0 || n > WEAK_MAX - 8;
        if check {
            probes += 1;
            let after = w0.weak_count() as i64;
            if after != before + 1 || after != n {
                viol(rep, "count_step", format!("weak_count went from {} to {} on a successful Weak::clone ({} Weaks exist)", before, after, n));
                leak_all(weaks, w0);
                return;
            }
            if !dead(&w0) || !dead(weaks.last().unwrap()) {
                viol(rep, "weak_after_death", format!("a Weak to the dead value came back to life at weak count {} (strong_count {}, upgrade is_some {})", after, w0.strong_count(), w0.upgrade().is_some()));
                leak_all(weaks, w0);
                return;
            }
        }
    }
    // over the limit: 5 attempts, then hysteresis
    for round in 0..2 {
        for attempt in 0..5 {
            let before = w0.weak_count();
            let r = catch_unwind(AssertUnwindSafe(|| w0.clone()));
            probes += 1;
            match r {
                Ok(w) => {
                    weaks.push(w);
                    viol(rep, "no_panic", format!("Weak::clone number {} over the limit of {} Weak pointers (value dead) did not panic", attempt, WEAK_MAX));
                    leak_all(weaks, w0);
                    return;
                }
                Err(_) => panics += 1,
            }
            let after = w0.weak_count();
            if after != before || after as i64 != WEAK_MAX {
                viol(rep, "count_changed_after_panic", format!("weak_count changed from {} to {} across a refused Weak::clone", before, after));
                leak_all(weaks, w0);
                return;
            }
            if !dead(&w0) || !dead(&weaks[0]) || !dead(weaks.last().unwrap()) {
                viol(rep, "weak_after_death", format!("after a refused Weak::clone at the limit a Weak to the dead value reports strong_count {} / upgrade is_some {}", w0.strong_count(), w0.upgrade().is_some()));
                leak_all(weaks, w0);
                return;
            }
        }
        if round == 0 {
            for _ in 0..3 {
                weaks.pop();
            }
            for _ in 0..3 {
                match catch_unwind(AssertUnwindSafe(|| w0.clone())) {
                    Ok(w) => weaks.push(w),
                    Err(_) => {
                        viol(rep, "count_after_release", "after dropping 3 Weaks, fewer than 3 Weak::clone calls succeeded".into());
                        leak_all(weaks, w0);
                        return;
                    }
                }
            }
        }
    }
    drop(weaks);
    if w0.weak_count() != 1 || !dead(&w0) {
        viol(rep, "count_after_release", format!("after dropping every clone weak_count is {}", w0.weak_count()));
    }
    drop(w0);
    rep.evaluations += 1;
    rep.count("acquisitions", acquisitions);
    rep.count("panics_observed", panics);
    rep.count("boundary_probes", probes);
    rep.count("dead_value_weak_scenarios", 1);
    rep.set_add("routes", "wclone_dead");
    let mut h = vcommon::rng::Fnv::new();
    h.str(&id_str);
    rep.nontrivial(h.finish());
}

#[cfg(feature = "weak-ptrs")]
fn leak_all(weaks: Vec<Weak<Node>>, w0: Weak<Node>) {
    // after a violation the counters cannot be trusted: never run the destructors
    std::mem::forget(weaks);
    std::mem::forget(w0);
}

fn is_harness_bug(msg: &str) -> bool {
    let crate_msg = msg.contains("references has been created") || msg.contains("while tracing") || msg.contains("while collecting");
    let here = msg.contains(" @ src/") || msg.contains("p_ptr/src") || msg.contains("common/src");
    here && !crate_msg
}

fn main() {
    let args = Args::from_env();
    if args.flag("--noop") {
        return;
    }
    let all = scenarios();
    if args.flag("--list") {
        for s in &all {
            println!("{}", s.id());
        }
        return;
    }
    install_silent_hook();
    auto_collect_off();
    let mut rep = Report::new();
    rep.max_samples = 2;
    let shard = args.usize("--shard", 0);
    let nshards = args.usize("--nshards", 1).max(1);
    let only = args.get("--only").map(|s| s.to_string());
    let mut ran = 0;
    for (i, scn) in all.iter().enumerate() {
        match &only {
            Some(id) => {
                if &scn.id() != id {
                    continue;
                }
            }
            None => {
                if i % nshards != shard {
                    continue;
                }
            }
        }
        ran += 1;
        let r = catch_unwind(AssertUnwindSafe(|| run_scenario(scn, &mut rep, &args)));
        match r {
            Ok(Ok(())) => {}
            Ok(Err(Stop::Violated)) => {}
            Ok(Err(Stop::Inconclusive(m))) => rep.inconclusive(format!("{}: {}", scn.id(), m)),
            Err(_) => {
                let m = last_panic();
                if is_harness_bug(&m) {
                    eprintln!("harness error in scenario {}: {}", scn.id(), m);
                    rep.emit();
                    std::process::exit(3);
                }
                let sig = format!("{}:unexpected_panic:{}:escaped:{}", P, scn.route, scn.variant());
                let mut replay = vec!["--only".to_string(), scn.id()];
                if args.flag("--reduced") {
                    replay.push("--reduced".into());
                }
                rep.viol(P, "unexpected_panic", &sig, &format!("scenario {}: a panic escaped from the crate: {}", scn.id(), m), &replay);
            }
        }
    }
    #[cfg(feature = "weak-ptrs")]
    for (k, how) in ["rc", "collector", "unwrap"].iter().enumerate() {
        let idn = format!("deadweak-{}", how);
        let pick = match &only {
            Some(id) => *id == idn,
            None => (all.len() + k) % nshards == shard && !(args.flag("--reduced") && k != shard % 3),
        };
        if pick {
            ran += 1;
            let r = catch_unwind(AssertUnwindSafe(|| dead_value_scenario(how, &mut rep, args.flag("--reduced"))));
            if r.is_err() {
                let m = last_panic();
                if is_harness_bug(&m) {
                    eprintln!("harness error in scenario {}: {}", idn, m);
                    rep.emit();
                    std::process::exit(3);
                }
                rep.viol(P, "unexpected_panic", &format!("{}:unexpected_panic:wclone_dead:escaped:{}", P, how), &format!("scenario {}: a panic escaped from the crate: {}", idn, m), &["--only".to_string(), idn.clone()]);
            }
        }
    }
    #[cfg(feature = "finalization")]
    {
        let idn = "garbagepool-fin".to_string();
        let pick = match &only {
            Some(id) => *id == idn,
            None => shard == 0 && !args.flag("--reduced"),
        };
        if pick {
            ran += 1;
            let r = catch_unwind(AssertUnwindSafe(|| garbage_pool_scenario(&mut rep)));
            if r.is_err() {
                let m = last_panic();
                if is_harness_bug(&m) {
                    eprintln!("harness error in scenario {}: {}", idn, m);
                    rep.emit();
                    std::process::exit(3);
                }
                rep.viol(P, "unexpected_panic", &format!("{}:unexpected_panic:garbagepool:escaped", P), &format!("scenario {}: a panic escaped from the crate: {}", idn, m), &["--only".to_string(), idn.clone()]);
            }
        }
    }
    if let Some(id) = &only {
        if ran == 0 {
            // a scenario that does not exist under this feature set
            rep.inconclusive(format!("no scenario {} under features {}", id, features_string()));
        }
    }
    rep.count("scenarios_selected", ran);
    rep.emit();
}
