//! C20: `Cc` is a transparent, stable, correctly aligned pointer to its value; the forwarding impls behave as on `T`.
//!
//! Units of work (sharded by index, addressable by `--only`):
//!   * `layout:<N>x<A>`  one point of the 8 x 6 size / alignment grid: churn histories on `Cc<P>` (the bare
//!     payload, a true ZST when N = 0) and on `Cc<Holder<P>>` (payload + cycle edge, can be resurrected), addresses
//!     sampled after every operation; `ptr_eq` on all pairs of a pool of equal-valued distinct allocations;
//!   * `values:<type>`   all ordered pairs of a value domain: comparison operators, Ord methods, Hash call stream,
//!     Debug / Display under several format specs, Default.
//!
//! argv: [--only <unit>] [--shard i --nshards n] [--seed s] [--seqs k] [--len l] [--reduced] [--list] [--noop]
use std::any::Any;
use std::borrow::Borrow;
use std::cell::{Cell, RefCell};
use std::cmp::Ordering;
use std::collections::{BTreeSet, HashSet};
use std::fmt::{self, Debug, Display};
use std::hash::{Hash, Hasher};
use std::mem::{align_of, size_of};

use p_ptr::*;
#[cfg(feature = "weak-ptrs")]
use rust_cc::weak::Weak;
use rust_cc::{collect_cycles, Cc, Context, Finalize, Trace};
use vcommon::report::{Args, Report};
use vcommon::rng::{Fnv, Rng};
use vcommon::Json;

const PR: &str = "C20";

// ------------------------------------------------------------------------------------------------
// context

struct Cx {
    rep: Report,
    reduced: bool,
    seed: u64,
    seqs: usize,
    len: usize,
    emitted: HashSet<String>,
    unit: String,
}

impl Cx {
    fn viol(&mut self, oracle: &str, subject: &str, op: &str, detail: String) {
        let sig = format!("{}:{}:{}:{}", PR, oracle, subject, op);
        if !self.emitted.insert(sig.clone()) {
            // one VIOL line per signature; repetitions are only counted
            self.rep.count("violations_repeated", 1);
            return;
        }
        let mut replay = vec!["--only".to_string(), self.unit.clone(), "--seed".to_string(), self.seed.to_string(),
                              "--seqs".to_string(), self.seqs.to_string(), "--len".to_string(), self.len.to_string()];
        if self.reduced {
            replay.push("--reduced".into());
        }
        let detail = format!("[{} {} unit {}] {}", features_string(), profile_string(), self.unit, detail);
        self.rep.viol(PR, oracle, &sig, &detail, &replay);
    }
    fn eval(&mut self, n: u64) {
        self.rep.evaluations += n;
    }
}

// ------------------------------------------------------------------------------------------------
// payload types of the layout grid

fn pattern(n: usize, salt: u8) -> Vec<u8> {
    (0..n).map(|i| (i as u8).wrapping_mul(31).wrapping_add(salt).wrapping_add((i >> 8) as u8)).collect()
}

trait Pay: Trace + Finalize + Sized + 'static {
    const REQ: usize;
    fn make(salt: u8) -> Self;
    fn bytes(&self) -> &[u8];
}

/// What a churn history is run on: the bare payload or a holder around it.
trait Subject: Trace + Sized + 'static {
    type P: Pay;
    const KIND: &'static str;
    fn make(salt: u8) -> Self;
    fn payload(&self) -> &Self::P;
    /// Adds / removes an edge from the object to itself. false = this kind has no edges.
    fn set_self_edge(_this: &Cc<Self>, _on: bool) -> bool {
        false
    }
    /// Makes the next finalizer run store a clone of the self edge in RES. false = not supported.
    fn arm(_this: &Cc<Self>) -> bool {
        false
    }
}

thread_local! {
    static RES: RefCell<Vec<Box<dyn Any>>> = RefCell::new(Vec::new());
    static CB_ERR: Cell<u32> = Cell::new(0);
}

#[repr(C)]
struct Holder<P: Pay> {
    payload: P,
    edge: RefCell<Option<Cc<Holder<P>>>>,
    resurrect: Cell<bool>,
}

unsafe impl<P: Pay> Trace for Holder<P> {
    fn trace(&self, ctx: &mut Context<'_>) {
        self.edge.trace(ctx);
    }
}

impl<P: Pay> Finalize for Holder<P> {
    fn finalize(&self) {
        if self.resurrect.replace(false) {
            let mut ok = false;
            if let Ok(e) = self.edge.try_borrow() {
                if let Some(c) = e.as_ref() {
                    let c2: Cc<Holder<P>> = c.clone();
                    ok = RES
                        .try_with(|r| match r.try_borrow_mut() {
                            Ok(mut v) => {
                                v.push(Box::new(c2));
                                true
                            }
                            Err(_) => false,
                        })
                        .unwrap_or(false);
                }
            }
            if !ok {
                let _ = CB_ERR.try_with(|c| c.set(c.get() + 1));
            }
        }
    }
}

impl<P: Pay> Subject for Holder<P> {
    type P = P;
    const KIND: &'static str = "holder";
    fn make(salt: u8) -> Self {
        Holder { payload: P::make(salt), edge: RefCell::new(None), resurrect: Cell::new(false) }
    }
    fn payload(&self) -> &P {
        &self.payload
    }
    fn set_self_edge(this: &Cc<Self>, on: bool) -> bool {
        let new = if on { Some(this.clone()) } else { None };
        let old = {
            let mut b = this.edge.borrow_mut();
            std::mem::replace(&mut *b, new)
        };
        drop(old);
        true
    }
    fn arm(this: &Cc<Self>) -> bool {
        if cfg!(feature = "finalization") {
            this.resurrect.set(true);
            true
        } else {
            false
        }
    }
}

/// Member of a garbage cycle that points at the object under test.
struct Link<T: Trace + 'static> {
    target: Cc<T>,
    next: RefCell<Option<Cc<Link<T>>>>,
}

unsafe impl<T: Trace + 'static> Trace for Link<T> {
    fn trace(&self, ctx: &mut Context<'_>) {
        self.target.trace(ctx);
        self.next.trace(ctx);
    }
}

impl<T: Trace + 'static> Finalize for Link<T> {}

struct LayoutCase {
    name: &'static str,
    req: usize,
    align: usize,
    run: fn(&mut Cx, &LayoutCase, usize),
}

macro_rules! layouts {
    ($( ($name:ident, $n:literal, $a:literal) ),* $(,)?) => {
        $(
            #[repr(C, align($a))]
            struct $name {
                b: [u8; $n],
            }
            unsafe impl Trace for $name {
                fn trace(&self, _: &mut Context<'_>) {}
            }
            impl Finalize for $name {}
            impl Pay for $name {
                const REQ: usize = $n;
                fn make(salt: u8) -> Self {
                    let mut b = [0u8; $n];
                    for (i, x) in pattern($n, salt).into_iter().enumerate() {
                        b[i] = x;
                    }
                    $name { b }
                }
                fn bytes(&self) -> &[u8] {
                    &self.b[..]
                }
            }
            impl Subject for $name {
                type P = $name;
                const KIND: &'static str = "leaf";
                fn make(salt: u8) -> Self {
                    <$name as Pay>::make(salt)
                }
                fn payload(&self) -> &$name {
                    self
                }
            }
        )*
        fn all_layouts() -> Vec<LayoutCase> {
            vec![ $( LayoutCase { name: concat!(stringify!($n), "x", stringify!($a)), req: $n, align: $a, run: run_layout::<$name> } ),* ]
        }
    };
}

layouts! {
    (P0x1, 0, 1), (P0x2, 0, 2), (P0x8, 0, 8), (P0x64, 0, 64), (P0x512, 0, 512), (P0x4096, 0, 4096),
    (P1x1, 1, 1), (P1x2, 1, 2), (P1x8, 1, 8), (P1x64, 1, 64), (P1x512, 1, 512), (P1x4096, 1, 4096),
    (P3x1, 3, 1), (P3x2, 3, 2), (P3x8, 3, 8), (P3x64, 3, 64), (P3x512, 3, 512), (P3x4096, 3, 4096),
    (P8x1, 8, 1), (P8x2, 8, 2), (P8x8, 8, 8), (P8x64, 8, 64), (P8x512, 8, 512), (P8x4096, 8, 4096),
    (P24x1, 24, 1), (P24x2, 24, 2), (P24x8, 24, 8), (P24x64, 24, 64), (P24x512, 24, 512), (P24x4096, 24, 4096),
    (P100x1, 100, 1), (P100x2, 100, 2), (P100x8, 100, 8), (P100x64, 100, 64), (P100x512, 100, 512), (P100x4096, 100, 4096),
    (P1000x1, 1000, 1), (P1000x2, 1000, 2), (P1000x8, 1000, 8), (P1000x64, 1000, 64), (P1000x512, 1000, 512), (P1000x4096, 1000, 4096),
    (P4096x1, 4096, 1), (P4096x2, 4096, 2), (P4096x8, 4096, 8), (P4096x64, 4096, 64), (P4096x512, 4096, 512), (P4096x4096, 4096, 4096),
}

// ------------------------------------------------------------------------------------------------
// churn histories

#[derive(Clone, Copy, PartialEq, Eq, Debug)]
enum OpK {
    Clone,
    DropClone,
    Collect,
    MarkAlive,
    Downgrade,
    Upgrade,
    DropWeak,
    Noise,
    GarbageAround,
    MoveHandle,
    SelfCycleOn,
    SelfCycleOff,
    Resurrect,
}

const ALL_OPS: [OpK; 13] = [
    OpK::Clone, OpK::DropClone, OpK::Collect, OpK::MarkAlive, OpK::Downgrade, OpK::Upgrade, OpK::DropWeak, OpK::Noise,
    OpK::GarbageAround, OpK::MoveHandle, OpK::SelfCycleOn, OpK::SelfCycleOff, OpK::Resurrect,
];
const OP_WEIGHTS: [u32; 13] = [6, 6, 5, 2, 3, 3, 2, 2, 2, 2, 3, 1, 2];

impl OpK {
    fn name(self) -> &'static str {
        match self {
            OpK::Clone => "clone",
            OpK::DropClone => "drop",
            OpK::Collect => "collect",
            OpK::MarkAlive => "mark_alive",
            OpK::Downgrade => "downgrade",
            OpK::Upgrade => "upgrade",
            OpK::DropWeak => "drop_weak",
            OpK::Noise => "noise",
            OpK::GarbageAround => "garbage_cycle_around",
            OpK::MoveHandle => "move_handle",
            OpK::SelfCycleOn => "self_cycle_on",
            OpK::SelfCycleOff => "self_cycle_off",
            OpK::Resurrect => "resurrect",
        }
    }
}

fn canonical_ops(reduced: bool) -> Vec<OpK> {
    use OpK::*;
    if reduced {
        vec![Clone, DropClone, Collect, Downgrade, Upgrade, GarbageAround, SelfCycleOn, Collect, Resurrect, MarkAlive, DropWeak, SelfCycleOff, Noise, Collect]
    } else {
        vec![
            Clone, Clone, DropClone, Collect, MarkAlive, Downgrade, Upgrade, Collect, DropClone, MarkAlive, Noise, GarbageAround, Collect,
            MoveHandle, SelfCycleOn, Collect, DropClone, Collect, Resurrect, Collect, Downgrade, Upgrade, Resurrect, SelfCycleOff, DropWeak,
            Noise, Collect, Clone, DropClone, DropClone, Collect,
        ]
    }
}

struct St<T: Subject> {
    handles: Vec<Cc<T>>,
    #[cfg(feature = "weak-ptrs")]
    weaks: Vec<Weak<T>>,
    noise: Vec<Cc<T>>,
    self_edge: bool,
    finalized: bool,
    addr0: usize,
    pay0: usize,
    expected: Vec<u8>,
}

/// Samples the three access paths on every live handle. Returns false when something was reported.
fn sample<T: Subject>(cx: &mut Cx, st: &St<T>, lname: &str, op: &str) -> bool {
    let subj = format!("{}/{}", lname, T::KIND);
    let mut ok = true;
    let cap = if cx.reduced { 3 } else { 6 };
    for h in st.handles.iter().take(cap) {
        let r1: &T = &**h;
        let a1 = r1 as *const T as usize;
        let a2 = AsRef::<T>::as_ref(h) as *const T as usize;
        let a3 = Borrow::<T>::borrow(h) as *const T as usize;
        cx.rep.count("address_samples", 3);
        cx.eval(4);
        if a1 != a2 || a1 != a3 {
            cx.viol("addr_mismatch", &subj, op, "Deref, AsRef and Borrow returned different addresses for one handle".to_string());
            ok = false;
        }
        if a1 != st.addr0 {
            cx.viol("addr_unstable", &subj, op, format!("the value's address differs from the one recorded at creation (delta {} bytes) after `{}`", a1 as i128 - st.addr0 as i128, op));
            ok = false;
        }
        if a1 % align_of::<T>() != 0 {
            cx.viol("misaligned", &subj, "value", format!("after `{}`: address is {} modulo align_of::<T>() = {}", op, a1 % align_of::<T>(), align_of::<T>()));
            ok = false;
        }
        let p = r1.payload();
        let pa = p as *const T::P as usize;
        cx.eval(2);
        if pa % align_of::<T::P>() != 0 || pa != st.pay0 {
            if pa != st.pay0 {
                cx.viol("addr_unstable", &subj, op, format!("the payload field moved by {} bytes after `{}`", pa as i128 - st.pay0 as i128, op));
            } else {
                cx.viol("misaligned", &subj, "payload_field", format!("payload field: address modulo {} is {}", align_of::<T::P>(), pa % align_of::<T::P>()));
            }
            ok = false;
        }
        if p.bytes() != &st.expected[..] {
            cx.viol("payload_changed", &subj, op, format!("the bytes read through the handle differ from the ones stored at creation after `{}`", op));
            ok = false;
        }
    }
    ok
}

fn take_resurrected<T: Subject>() -> Option<Cc<T>> {
    let b = RES.with(|r| r.borrow_mut().pop())?;
    match b.downcast::<Cc<T>>() {
        Ok(c) => Some(*c),
        Err(_) => None,
    }
}

/// Runs one history on a fresh object. Returns true when the history did what makes it non-trivial
/// (at least one collection ran and at least one address sample was taken after it).
fn churn<T: Subject>(cx: &mut Cx, lname: &str, ops: &[OpK], salt: u8, auto: bool) {
    #[cfg(feature = "auto-collect")]
    {
        let _ = rust_cc::config::config(|c| c.set_auto_collect(auto));
    }
    let _ = auto;
    let collections0 = rust_cc::state::executions_count().unwrap_or(0);
    let first = Cc::new(T::make(salt));
    let addr0 = &*first as *const T as usize;
    let pay0 = first.payload() as *const T::P as usize;
    let mut st = St::<T> {
        handles: vec![first],
        #[cfg(feature = "weak-ptrs")]
        weaks: Vec::new(),
        noise: Vec::new(),
        self_edge: false,
        finalized: false,
        addr0,
        pay0,
        expected: pattern(<T::P as Pay>::REQ, salt),
    };
    let mut executed: Vec<&'static str> = Vec::new();
    sample(cx, &st, lname, "new");
    for &op in ops {
        let mut did = true;
        match op {
            OpK::Clone => {
                if st.handles.len() < 12 {
                    let c = st.handles[st.handles.len() - 1].clone();
                    st.handles.push(c);
                } else {
                    did = false;
                }
            }
            OpK::DropClone => {
                if st.handles.len() > 1 {
                    let c = st.handles.remove(0);
                    drop(c);
                } else {
                    // keep the object alive: buffer it through a clone that is dropped at once
                    let c = st.handles[0].clone();
                    drop(c);
                }
            }
            OpK::Collect => collect_cycles(),
            OpK::MarkAlive => st.handles[0].mark_alive(),
            OpK::Downgrade => {
                #[cfg(feature = "weak-ptrs")]
                {
                    if st.weaks.len() < 6 {
                        let w = st.handles[0].downgrade();
                        st.weaks.push(w);
                    }
                }
                did = cfg!(feature = "weak-ptrs");
            }
            OpK::Upgrade => {
                did = false;
                #[cfg(feature = "weak-ptrs")]
                {
                    if let Some(w) = st.weaks.last() {
                        match w.upgrade() {
                            Some(c) => {
                                if st.handles.len() < 12 {
                                    st.handles.push(c);
                                }
                                did = true;
                            }
                            None => cx.rep.inconclusive(format!("{}: upgrade of a live object returned None (not a C20 matter)", lname)),
                        }
                    }
                }
            }
            OpK::DropWeak => {
                did = false;
                #[cfg(feature = "weak-ptrs")]
                {
                    if let Some(w) = st.weaks.pop() {
                        drop(w);
                        did = true;
                    }
                }
            }
            OpK::Noise => {
                // other allocations of the same layout come and go around the object
                let old: Vec<Cc<T>> = std::mem::take(&mut st.noise);
                let a = Cc::new(T::make(salt.wrapping_add(1)));
                let b = Cc::new(T::make(salt.wrapping_add(2)));
                let c = Cc::new(T::make(salt.wrapping_add(3)));
                let filler: Vec<u8> = vec![0xAB; size_of::<T>().max(1) * 2];
                drop(old);
                drop(b);
                st.noise.push(a);
                st.noise.push(c);
                drop(filler);
            }
            OpK::GarbageAround => {
                let l1 = Cc::new(Link { target: st.handles[0].clone(), next: RefCell::new(None) });
                let l2 = Cc::new(Link { target: st.handles[0].clone(), next: RefCell::new(Some(l1.clone())) });
                {
                    let old = std::mem::replace(&mut *l1.next.borrow_mut(), Some(l2.clone()));
                    drop(old);
                }
                drop(l1);
                drop(l2);
                collect_cycles();
            }
            OpK::MoveHandle => {
                let h = st.handles.remove(0);
                let boxed = Box::new(h);
                let again: Cc<T> = *boxed;
                st.handles.push(again);
            }
            OpK::SelfCycleOn => {
                did = T::set_self_edge(&st.handles[0], true);
                st.self_edge = did;
            }
            OpK::SelfCycleOff => {
                did = T::set_self_edge(&st.handles[0], false);
                st.self_edge = false;
            }
            OpK::Resurrect => {
                did = false;
                if T::set_self_edge(&st.handles[0], true) {
                    st.self_edge = true;
                    // a finalizer runs once per object unless it is made finalizable again
                    #[cfg(feature = "finalization")]
                    if st.finalized {
                        st.handles[0].finalize_again();
                        executed.push("finalize_again");
                    }
                    if T::arm(&st.handles[0]) {
                        // every external handle goes; only the self edge is left; the collector finalizes the object,
                        // the finalizer stores a clone of the edge away
                        st.handles.clear();
                        collect_cycles();
                        match take_resurrected::<T>() {
                            Some(c) => {
                                st.handles.push(c);
                                st.finalized = true;
                                did = true;
                                cx.rep.count("resurrections", 1);
                            }
                            None => {
                                cx.rep.inconclusive(format!("{}/{}: the object did not come back from its finalizer", lname, T::KIND));
                                return;
                            }
                        }
                    }
                }
            }
        }
        if did {
            executed.push(op.name());
            cx.rep.count("churn_ops", 1);
        }
        sample(cx, &st, lname, op.name());
    }
    // teardown
    if st.self_edge {
        T::set_self_edge(&st.handles[0], false);
    }
    let mut h = Fnv::new();
    h.str(lname);
    h.str(T::KIND);
    for e in &executed {
        h.str(e);
    }
    if executed.iter().any(|e| *e == "collect" || *e == "garbage_cycle_around" || *e == "resurrect") {
        cx.rep.nontrivial(h.finish());
    }
    cx.rep.count("histories", 1);
    cx.rep.count("collections_observed", (rust_cc::state::executions_count().unwrap_or(0) - collections0) as u64);
    if auto && cfg!(feature = "auto-collect") {
        cx.rep.count("histories_with_auto_collect_on", 1);
    }
    if cx.rep.samples.len() < cx.rep.max_samples {
        cx.rep.sample(
            Json::obj()
                .set("unit", format!("layout:{}", lname))
                .set("kind", T::KIND)
                .set("size_of", size_of::<T>())
                .set("align_of", align_of::<T>())
                .set("ops", executed.iter().map(|s| Json::from(*s)).collect::<Vec<_>>()),
        );
    }
    drop(st);
    collect_cycles();
    #[cfg(feature = "auto-collect")]
    {
        let _ = rust_cc::config::config(|c| c.set_auto_collect(false));
    }
}

/// `ptr_eq` on all ordered pairs of handles of a pool of `k` distinct allocations holding equal values.
fn ptr_eq_pool<T: Subject>(cx: &mut Cx, lname: &str) {
    let subj = format!("{}/{}", lname, T::KIND);
    let k = if cx.reduced { 2 } else { 3 };
    let mut pool: Vec<(usize, Cc<T>)> = Vec::new();
    #[cfg(feature = "weak-ptrs")]
    let mut weaks = Vec::new();
    for i in 0..k {
        let c = Cc::new(T::make(7)); // same value in every allocation
        pool.push((i, c.clone()));
        #[cfg(feature = "weak-ptrs")]
        {
            let w = c.downgrade();
            if let Some(u) = w.upgrade() {
                pool.push((i, u));
            }
            weaks.push(w);
        }
        pool.push((i, c));
    }
    for (i, a) in pool.iter() {
        for (j, b) in pool.iter() {
            let got = Cc::ptr_eq(a, b);
            cx.rep.count("ptr_eq_pairs", 1);
            cx.eval(1);
            if got != (i == j) {
                cx.viol(
                    "ptr_eq",
                    &subj,
                    if i == j { "same_allocation" } else { "distinct_allocations" },
                    format!("ptr_eq returned {} for two handles to {} (equal values, size_of::<T>() = {})", got, if i == j { "the same allocation" } else { "distinct allocations" }, size_of::<T>()),
                );
            }
        }
    }
}

fn run_layout<P: Pay + Subject<P = P>>(cx: &mut Cx, lc: &LayoutCase, index: usize) {
    let lname = lc.name;
    let actual = size_of::<P>();
    // the harness's own assumptions about the grid
    if align_of::<P>() != lc.align || actual < lc.req || actual % lc.align != 0 {
        cx.rep.inconclusive(format!("layout {}: size_of {} align_of {} do not realise the grid point", lname, actual, align_of::<P>()));
        return;
    }
    cx.rep.count("layouts", 1);
    if actual == 0 {
        cx.rep.count("zst_layouts", 1);
    }
    if lc.align >= 64 {
        cx.rep.count("overaligned_layouts", 1);
    }
    cx.rep.set_add("layouts_seen", format!("{}x{}(size_of={})", lc.req, lc.align, actual));

    let canon = canonical_ops(cx.reduced);
    churn::<P>(cx, lname, &canon, 0x11, false);
    churn::<Holder<P>>(cx, lname, &canon, 0x23, false);
    for s in 0..cx.seqs {
        let mut rng = Rng::derive(cx.seed, (index as u64) * 1000 + s as u64);
        let ops: Vec<OpK> = (0..cx.len).map(|_| ALL_OPS[rng.weighted(&OP_WEIGHTS)]).collect();
        let salt = rng.below(256) as u8;
        // every other random history runs with automatic collection switched on (when the feature exists)
        let auto = s % 2 == 1;
        if s % 3 == 0 {
            churn::<P>(cx, lname, &ops, salt, auto);
        } else {
            churn::<Holder<P>>(cx, lname, &ops, salt, auto);
        }
    }
    ptr_eq_pool::<P>(cx, lname);
    ptr_eq_pool::<Holder<P>>(cx, lname);
}

// ------------------------------------------------------------------------------------------------
// forwarding impls

#[derive(Default, PartialEq, Eq, Debug, Clone)]
struct Rec {
    calls: Vec<(&'static str, Vec<u8>)>,
}

macro_rules! rec_int {
    ($($f:ident : $t:ty),*) => { $( fn $f(&mut self, i: $t) { self.calls.push((stringify!($f), i.to_ne_bytes().to_vec())); } )* };
}

impl Hasher for Rec {
    fn finish(&self) -> u64 {
        0
    }
    fn write(&mut self, bytes: &[u8]) {
        self.calls.push(("write", bytes.to_vec()));
    }
    rec_int!(write_u8: u8, write_u16: u16, write_u32: u32, write_u64: u64, write_u128: u128, write_usize: usize,
             write_i8: i8, write_i16: i16, write_i32: i32, write_i64: i64, write_i128: i128, write_isize: isize);
}

fn ord_name(o: Option<Ordering>) -> &'static str {
    match o {
        None => "None",
        Some(Ordering::Less) => "Less",
        Some(Ordering::Equal) => "Equal",
        Some(Ordering::Greater) => "Greater",
    }
}

/// A pair of handles for the values (x, y): 0 = two fresh allocations, 1 = (only when i == j) a handle and its clone.
fn pair_of<T: Trace + Clone + 'static>(x: &T, y: &T, same_alloc: bool) -> (Cc<T>, Cc<T>) {
    let a = Cc::new(x.clone());
    let b = if same_alloc { a.clone() } else { Cc::new(y.clone()) };
    (a, b)
}

fn pair_hash(tname: &str, i: usize, j: usize, same: bool) -> u64 {
    let mut h = Fnv::new();
    h.str("values");
    h.str(tname);
    h.u64(i as u64);
    h.u64(j as u64);
    h.byte(same as u8);
    h.finish()
}

fn check_partial<T>(cx: &mut Cx, tname: &str, vals: &[T])
where
    T: Trace + PartialEq + PartialOrd + Debug + Clone + 'static,
{
    for (i, x) in vals.iter().enumerate() {
        for (j, y) in vals.iter().enumerate() {
            for same in [false, true] {
                if same && i != j {
                    continue;
                }
                let (a, b) = pair_of(x, y, same);
                let checks: [(&str, String, String); 7] = [
                    ("eq", (a == b).to_string(), (x == y).to_string()),
                    ("ne", (a != b).to_string(), (x != y).to_string()),
                    ("partial_cmp", ord_name(a.partial_cmp(&b)).to_string(), ord_name(x.partial_cmp(y)).to_string()),
                    ("lt", (a < b).to_string(), (x < y).to_string()),
                    ("le", (a <= b).to_string(), (x <= y).to_string()),
                    ("gt", (a > b).to_string(), (x > y).to_string()),
                    ("ge", (a >= b).to_string(), (x >= y).to_string()),
                ];
                for (op, got, want) in checks.iter() {
                    cx.eval(1);
                    if got != want {
                        cx.viol("cmp_mismatch", tname, op, format!("{:?} {} {:?}: Cc<T> gives {}, T gives {}{}", x, op, y, got, want, if same { " (two handles of one allocation)" } else { "" }));
                    }
                }
                cx.rep.count("cmp_pairs", 1);
                if x.partial_cmp(y).is_none() {
                    cx.rep.count("incomparable_pairs", 1);
                }
                cx.rep.nontrivial(pair_hash(tname, i, j, same));
            }
        }
    }
    cx.rep.set_add("value_types", tname);
}

fn check_total<T>(cx: &mut Cx, tname: &str, vals: &[T])
where
    T: Trace + Ord + Hash + Debug + Clone + 'static,
{
    for x in vals.iter() {
        for y in vals.iter() {
            let (a, b) = pair_of(x, y, false);
            cx.eval(4);
            if a.cmp(&b) != x.cmp(y) {
                cx.viol("cmp_mismatch", tname, "cmp", format!("{:?} cmp {:?}: Cc<T> gives {:?}, T gives {:?}", x, y, a.cmp(&b), x.cmp(y)));
            }
            let mx = Ord::max(a.clone(), b.clone());
            let mn = Ord::min(a.clone(), b.clone());
            if *mx != Ord::max(x.clone(), y.clone()) {
                cx.viol("cmp_mismatch", tname, "max", format!("max({:?}, {:?}) through Cc<T> is {:?}", x, y, &*mx));
            }
            if *mn != Ord::min(x.clone(), y.clone()) {
                cx.viol("cmp_mismatch", tname, "min", format!("min({:?}, {:?}) through Cc<T> is {:?}", x, y, &*mn));
            }
            if x <= y {
                // clamp(lo, hi) needs lo <= hi
                for z in vals.iter() {
                    let cz = Cc::new(z.clone());
                    cx.eval(1);
                    if *cz.clamp(a.clone(), b.clone()) != z.clone().clamp(x.clone(), y.clone()) {
                        cx.viol("cmp_mismatch", tname, "clamp", format!("{:?}.clamp({:?}, {:?}) differs through Cc<T>", z, x, y));
                    }
                }
            }
        }
    }
    // sorting and ordered / hashed containers keyed by Cc<T>, looked up by &T through Borrow<T>
    let mut sorted_cc: Vec<Cc<T>> = vals.iter().rev().map(|v| Cc::new(v.clone())).collect();
    let mut sorted_t: Vec<T> = vals.iter().rev().cloned().collect();
    sorted_cc.sort();
    sorted_t.sort();
    cx.eval(1);
    if sorted_cc.iter().map(|c| (**c).clone()).collect::<Vec<T>>() != sorted_t {
        cx.viol("cmp_mismatch", tname, "sort", "sorting a Vec<Cc<T>> gives another order than sorting the Vec<T>".to_string());
    }
    let half: Vec<&T> = vals.iter().step_by(2).collect();
    let hs: HashSet<Cc<T>> = half.iter().map(|v| Cc::new((*v).clone())).collect();
    let bs: BTreeSet<Cc<T>> = half.iter().map(|v| Cc::new((*v).clone())).collect();
    for v in vals.iter() {
        let want = half.iter().any(|h| *h == v);
        cx.eval(2);
        if hs.contains::<T>(v) != want {
            cx.viol("hash_mismatch", tname, "hashset_lookup", format!("HashSet<Cc<T>>::contains(&{:?}) is {}, expected {}", v, !want, want));
        }
        if bs.contains::<T>(v) != want {
            cx.viol("cmp_mismatch", tname, "btreeset_lookup", format!("BTreeSet<Cc<T>>::contains(&{:?}) is {}, expected {}", v, !want, want));
        }
    }
    // Hash: the same calls with the same bytes arrive at the Hasher
    for x in vals.iter() {
        let a = Cc::new(x.clone());
        let mut h1 = Rec::default();
        let mut h2 = Rec::default();
        a.hash(&mut h1);
        x.hash(&mut h2);
        cx.rep.count("hash_streams", 1);
        cx.eval(2);
        if h1 != h2 {
            cx.viol("hash_mismatch", tname, "hash", format!("hashing Cc::new({:?}) feeds the Hasher {:?}, hashing the value feeds it {:?}", x, h1.calls, h2.calls));
        }
        let mut d1 = std::collections::hash_map::DefaultHasher::new();
        let mut d2 = std::collections::hash_map::DefaultHasher::new();
        a.hash(&mut d1);
        x.hash(&mut d2);
        if d1.finish() != d2.finish() {
            cx.viol("hash_mismatch", tname, "hash_default_hasher", format!("DefaultHasher digest of Cc::new({:?}) differs from the digest of the value", x));
        }
    }
}

macro_rules! fmt_table {
    ($c:expr, $t:expr, [$($spec:literal),* $(,)?]) => {
        vec![ $( ($spec, format!($spec, $c), format!($spec, $t)) ),* ]
    };
}

fn check_debug<T>(cx: &mut Cx, tname: &str, vals: &[T])
where
    T: Trace + Debug + Clone + 'static,
{
    for x in vals.iter() {
        let a = Cc::new(x.clone());
        let table = fmt_table!(a, x, ["{:?}", "{:#?}", "{:>12?}", "{:<3?}", "{:+?}", "{:+.3?}", "{:08.2?}", "{:x?}", "{:#X?}", "{:*^15.1?}"]);
        for (spec, got, want) in table {
            cx.rep.count("fmt_strings", 1);
            cx.eval(1);
            if got != want {
                cx.viol("fmt_mismatch", tname, &format!("debug{}", spec), format!("format!({:?}) of Cc<T> is {:?}, of T is {:?}", spec, got, want));
            }
        }
    }
}

fn check_display<T>(cx: &mut Cx, tname: &str, vals: &[T])
where
    T: Trace + Display + Debug + Clone + 'static,
{
    for x in vals.iter() {
        let a = Cc::new(x.clone());
        let table = fmt_table!(a, x, ["{}", "{:>8}", "{:<8}", "{:^9}", "{:+}", "{:+.3}", "{:08.2}", "{:.0}", "{:*^7.2}", "{:#}"]);
        for (spec, got, want) in table {
            cx.rep.count("fmt_strings", 1);
            cx.eval(1);
            if got != want {
                cx.viol("fmt_mismatch", tname, &format!("display{}", spec), format!("format!({:?}) of Cc<T> is {:?}, of T is {:?}", spec, got, want));
            }
        }
        cx.eval(1);
        if a.to_string() != x.to_string() {
            cx.viol("fmt_mismatch", tname, "to_string", "to_string() differs".to_string());
        }
    }
}

fn check_default<T>(cx: &mut Cx, tname: &str)
where
    T: Trace + Default + PartialEq + Debug + 'static,
{
    let d1 = Cc::<T>::default();
    let d2: Cc<T> = Default::default();
    cx.eval(4);
    cx.rep.count("default_checks", 1);
    if *d1 != T::default() || *d2 != T::default() {
        cx.viol("default_mismatch", tname, "value", format!("Cc::<T>::default() holds {:?}, T::default() is {:?}", &*d1, T::default()));
    }
    if Cc::ptr_eq(&d1, &d2) {
        cx.viol("default_mismatch", tname, "fresh_allocation", "two calls of Cc::<T>::default() returned the same allocation".to_string());
    }
    if d1.strong_count() != 1 || d2.strong_count() != 1 {
        cx.viol("default_mismatch", tname, "fresh_allocation", format!("a default Cc has strong_count {} / {}", d1.strong_count(), d2.strong_count()));
    }
}

// --- a user-defined ordered, hashable, displayable payload

#[derive(Clone, Debug, PartialEq, Eq, PartialOrd, Ord, Hash, Default)]
enum Sev {
    #[default]
    Low,
    Mid(u8),
    High { code: i16 },
    Top,
}

impl Display for Sev {
    fn fmt(&self, f: &mut fmt::Formatter<'_>) -> fmt::Result {
        let s = match self {
            Sev::Low => "low".to_string(),
            Sev::Mid(x) => format!("mid/{}", x),
            Sev::High { code } => format!("high/{}", code),
            Sev::Top => "top".to_string(),
        };
        // honours width / fill / precision like a string does
        f.pad(&s)
    }
}

unsafe impl Trace for Sev {
    fn trace(&self, _: &mut Context<'_>) {}
}

impl Finalize for Sev {}

/// A payload whose order is deliberately not the derived one (compares by absolute value, ties by sign) and
/// which is only partially ordered (`Odd` values are incomparable with `Even` ones).
#[derive(Clone, Debug, Default)]
struct Parity(i32);

impl PartialEq for Parity {
    fn eq(&self, o: &Self) -> bool {
        self.0 == o.0
    }
}

impl PartialOrd for Parity {
    fn partial_cmp(&self, o: &Self) -> Option<Ordering> {
        if (self.0 & 1) != (o.0 & 1) {
            None
        } else {
            Some(self.0.unsigned_abs().cmp(&o.0.unsigned_abs()).then(self.0.cmp(&o.0)))
        }
    }
}

unsafe impl Trace for Parity {
    fn trace(&self, _: &mut Context<'_>) {}
}

impl Finalize for Parity {}

const VALUE_UNITS: [&str; 7] = ["i32", "f64", "String", "tuple_i32_u8", "tuple_f64_i32", "Sev", "Parity"];

fn run_values(cx: &mut Cx, tname: &str) {
    let red = cx.reduced;
    match tname {
        "i32" => {
            let v: Vec<i32> = if red { vec![i32::MIN, -1, 0, i32::MAX] } else { vec![i32::MIN, i32::MIN + 1, -1, 0, 1, 2, 42, i32::MAX - 1, i32::MAX] };
            check_partial(cx, tname, &v);
            check_total(cx, tname, &v);
            check_debug(cx, tname, &v);
            check_display(cx, tname, &v);
            check_default::<i32>(cx, tname);
        }
        "f64" => {
            let v: Vec<f64> = if red {
                vec![f64::NAN, 0.0, -0.0, 1.5, f64::NEG_INFINITY]
            } else {
                vec![f64::NAN, -f64::NAN, 0.0, -0.0, f64::INFINITY, f64::NEG_INFINITY, 5e-324, 1.0, -1.0, 1.5, 1e300, -2.5e-3]
            };
            check_partial(cx, tname, &v);
            check_debug(cx, tname, &v);
            check_display(cx, tname, &v);
            check_default::<f64>(cx, tname);
        }
        "String" => {
            let src: &[&str] = if red { &["", "a", "\u{65e5}\u{672c}"] } else { &["", "a", "A", "ab", "b", "\u{e9}", "\u{65e5}\u{672c}\u{8a9e}", "a\u{0}b"] };
            let v: Vec<String> = src.iter().map(|s| s.to_string()).collect();
            check_partial(cx, tname, &v);
            check_total(cx, tname, &v);
            check_debug(cx, tname, &v);
            check_display(cx, tname, &v);
            check_default::<String>(cx, tname);
        }
        "tuple_i32_u8" => {
            let mut v: Vec<(i32, u8)> = Vec::new();
            let firsts: &[i32] = if red { &[-1, 7] } else { &[i32::MIN, -1, 0, 7, i32::MAX] };
            for &a in firsts {
                for b in [0u8, 1, 255] {
                    v.push((a, b));
                }
            }
            check_partial(cx, tname, &v);
            check_total(cx, tname, &v);
            check_debug(cx, tname, &v);
            check_default::<(i32, u8)>(cx, tname);
        }
        "tuple_f64_i32" => {
            let mut v: Vec<(f64, i32)> = Vec::new();
            let firsts: &[f64] = if red { &[f64::NAN, 1.0] } else { &[f64::NAN, -0.0, 0.0, 1.0, f64::INFINITY] };
            for &a in firsts {
                for b in [-3, 0, 9] {
                    v.push((a, b));
                }
            }
            check_partial(cx, tname, &v);
            check_debug(cx, tname, &v);
            check_default::<(f64, i32)>(cx, tname);
        }
        "Sev" => {
            let v: Vec<Sev> = if red {
                vec![Sev::Low, Sev::Mid(3), Sev::Top]
            } else {
                vec![Sev::Low, Sev::Mid(0), Sev::Mid(3), Sev::Mid(255), Sev::High { code: -5 }, Sev::High { code: 900 }, Sev::Top]
            };
            check_partial(cx, tname, &v);
            check_total(cx, tname, &v);
            check_debug(cx, tname, &v);
            check_display(cx, tname, &v);
            check_default::<Sev>(cx, tname);
        }
        "Parity" => {
            let v: Vec<Parity> = (if red { vec![-2, 1, 2] } else { vec![-4, -3, -1, 0, 1, 2, 3, 4, i32::MIN, i32::MAX] }).into_iter().map(Parity).collect();
            check_partial(cx, tname, &v);
            check_debug(cx, tname, &v);
            check_default::<Parity>(cx, tname);
        }
        _ => cx.rep.inconclusive(format!("unknown value unit {}", tname)),
    }
    if cx.rep.samples.len() < cx.rep.max_samples {
        cx.rep.sample(Json::obj().set("unit", format!("values:{}", tname)).set("evaluations_so_far", cx.rep.evaluations));
    }
}

// ------------------------------------------------------------------------------------------------

fn main() {
    let args = Args::from_env();
    if args.flag("--noop") {
        return;
    }
    let layouts = all_layouts();
    let mut units: Vec<String> = layouts.iter().map(|l| format!("layout:{}", l.name)).collect();
    units.extend(VALUE_UNITS.iter().map(|v| format!("values:{}", v)));
    if args.flag("--list") {
        for u in &units {
            println!("{}", u);
        }
        return;
    }
    install_silent_hook();
    auto_collect_off();
    let reduced = args.flag("--reduced");
    let mut cx = Cx {
        rep: Report::new(),
        reduced,
        seed: args.u64("--seed", 1),
        seqs: args.usize("--seqs", if reduced { 0 } else { 6 }),
        len: args.usize("--len", if reduced { 12 } else { 40 }),
        emitted: HashSet::new(),
        unit: String::new(),
    };
    cx.rep.max_samples = 2;
    let shard = args.usize("--shard", 0);
    let nshards = args.usize("--nshards", 1).max(1);
    let only = args.get("--only").map(|s| s.to_string());
    let mut ran = 0u64;
    for (i, u) in units.iter().enumerate() {
        match &only {
            Some(o) => {
                if o != u {
                    continue;
                }
            }
            None => {
                if i % nshards != shard {
                    continue;
                }
            }
        }
        ran += 1;
        cx.unit = u.clone();
        let r = std::panic::catch_unwind(std::panic::AssertUnwindSafe(|| {
            if let Some(l) = u.strip_prefix("layout:") {
                if let Some((idx, lc)) = layouts.iter().enumerate().find(|(_, lc)| lc.name == l) {
                    (lc.run)(&mut cx, lc, idx);
                }
            } else if let Some(t) = u.strip_prefix("values:") {
                run_values(&mut cx, t);
            }
        }));
        if r.is_err() {
            // No operation of these histories may panic in the crate; a panic raised by this file itself is a harness bug.
            let m = last_panic();
            let crate_side = m.contains("/repo") || m.contains("rust-cc") || m.contains("rust_cc") || m.contains("while tracing") || m.contains("references has been created");
            if !crate_side {
                eprintln!("harness error in unit {}: {}", u, m);
                cx.rep.emit();
                std::process::exit(3);
            }
            let subj = u.replace(':', "_");
            cx.viol("unexpected_panic", &subj, "escaped", format!("a panic escaped from the crate: {}", m));
        }
    }
    let cb = CB_ERR.with(|c| c.get());
    if cb != 0 {
        cx.rep.inconclusive(format!("{} finalizer bookkeeping errors", cb));
    }
    if only.is_some() && ran == 0 {
        cx.rep.inconclusive(format!("no unit {}", only.unwrap_or_default()));
    }
    cx.rep.count("units", ran);
    cx.rep.emit();
}
