#!/usr/bin/env python3
"""Re-runs checks of /verif against seeded mutants (seeded/<name>/patch.diff) in a scratch worktree of /repo.
usage: lib/reseed.py [--tier quick] [--wt DIR] [--caught] NAME[:C01,C07] ...   (default checks: the mutant's own property; --caught: the check that caught it last time)
Results are merged into seeded/<name>/meta.json ("checks": per check caught / exit / lines, "checked_at_commit")."""
import json
import os
import subprocess
import sys
import time

ROOT = os.path.dirname(os.path.dirname(os.path.abspath(__file__)))


def sh(cmd, cwd=None, env=None, timeout=7200):
    e = dict(os.environ)
    if env:
        e.update(env)
    p = subprocess.run(cmd, cwd=cwd, env=e, stdout=subprocess.PIPE, stderr=subprocess.STDOUT, text=True, timeout=timeout, shell=isinstance(cmd, str))
    return p.returncode, p.stdout


def main():
    args = sys.argv[1:]
    tier = "quick"
    wt = "/tmp/mut/reseed-%d" % os.getpid()
    items = []
    only_caught = False
    while args:
        a = args.pop(0)
        if a == "--tier":
            tier = args.pop(0)
        elif a == "--wt":
            wt = args.pop(0)
        elif a == "--caught":
            only_caught = True
        else:
            items.append(a)
    sd = os.path.join(ROOT, "seeded")
    if not items:
        items = sorted(os.listdir(sd))
    if not os.path.isdir(wt):
        rc, out = sh(["git", "-C", "/repo", "worktree", "add", "-q", wt, "HEAD"])
        if rc != 0:
            print(out)
            return 2
    commit = sh(["git", "-C", ROOT, "rev-parse", "--short", "HEAD"])[1].strip()
    try:
        for it in items:
            name, _, cs = it.partition(":")
            mp = os.path.join(sd, name, "meta.json")
            with open(mp) as f:
                meta = json.load(f)
            checks = [c for c in cs.split(",") if c] or [meta["property"]]
            if only_caught and not cs:
                # regression run: the (first) check that caught it last time
                prev = [c for c, r in sorted(meta.get("checks", {}).items()) if r.get("caught")]
                own = [c for c in prev if c == meta["property"]]
                checks = (own or prev)[:1] or [meta["property"]]
            sh("git checkout -q -- . && git clean -fdq src derive tests", cwd=wt)
            rc, out = sh(["git", "apply", "--whitespace=nowarn", os.path.join(sd, name, "patch.diff")], cwd=wt)
            if rc != 0:
                print(name, "patch does not apply:", out[:300])
                continue
            for c in checks:
                t0 = time.time()
                rc, out = sh([os.path.join(ROOT, "check"), c, "--tier", tier], cwd=ROOT, env={"VERIF_REPO": wt})
                lines = [l for l in out.splitlines() if l.startswith("VIOLATION") or l.startswith("KNOWN") or l.startswith("  oracle=") or "inconclusive" in l or l.startswith("[" + c)]
                caught = any(l.startswith("VIOLATION property=%s " % c) for l in out.splitlines())
                meta.setdefault("checks", {})[c] = {"exit": rc, "caught": caught, "tier": tier, "wall_s": round(time.time() - t0, 1), "lines": lines[:10], "framework_commit": commit}
                print("%s vs %s: %s (exit %d, %.0fs)" % (name, c, "CAUGHT" if caught else "not caught", rc, time.time() - t0), flush=True)
            with open(mp, "w") as f:
                json.dump(meta, f, indent=1)
    finally:
        sh(["git", "-C", "/repo", "worktree", "remove", "--force", wt])
        sh("rm -rf %s/.build/alt-*" % ROOT)
    return 0


if __name__ == "__main__":
    sys.exit(main())
