#!/bin/bash
# usage: lib/seedq.sh <PID> <M1|M2|ID> <name> <checks> [extra seed.py args]
# Runs lib/seed.py of the committed snapshot /var/tmp/verif-snap (so that edits in /verif do not disturb it): two lanes,
# one job at a time per scratch worktree (the lane is a function of the worktree); results stored in /verif/seeded/<name>.
pid=$1; m=$2; name=$3; checks=$4; shift 4
wt="/tmp/mut/$pid"; prev=""
for a in "$@"; do [ "$prev" = "--wt" ] && wt="$a"; prev="$a"; done
lane=$(( $(echo -n "$wt" | cksum | cut -d' ' -f1) % 2 ))
( flock 9 && cd /var/tmp/verif-snap && SEED_STORE=/verif/seeded python3 lib/seed.py "$pid" "$m" --name "$name" --checks "$checks" "$@" > /tmp/seed-$name.log 2>&1 ) 9>/tmp/seedq-$lane.lock &
