#!/bin/bash
# usage: lib/seedq.sh <PID> <M1|M2> <name> <checks> [extra seed.py args]   -- serialised through a lock, runs in background
cd /verif
pid=$1; m=$2; name=$3; checks=$4; shift 4
( flock 9; python3 lib/seed.py "$pid" "$m" --name "$name" --checks "$checks" "$@" > /tmp/seed-$name.log 2>&1 ) 9>/tmp/seedq2.lock &
