#!/usr/bin/env python3
"""Writes /tmp/mut/<PID>/TASK.md for mutation-author sub-agents: the property text only (nothing from /verif's machinery),
plus one-line descriptions of changes submitted in earlier rounds so that new ones differ."""
import json, os, sys
sys.path.insert(0, os.path.dirname(os.path.abspath(__file__)))
from seed_notes import NOTES
ROOT = os.path.dirname(os.path.dirname(os.path.abspath(__file__)))
TEMPLATE = open(os.path.join(ROOT, "lib", "author_task_template.md")).read()
for l in open(os.path.join(ROOT, "properties.jsonl")):
    p = json.loads(l)
    pid = p["id"]
    wt = "/tmp/mut/%s" % pid
    if not os.path.isdir(wt):
        continue
    prev = "\n".join("* %s -- needed: %s" % (v[0], v[1]) for k, v in sorted(NOTES.items()) if k.startswith(pid + "-")) or "(none)"
    others = "\n".join("* %s" % v[0] for k, v in sorted(NOTES.items()) if not k.startswith(pid + "-") and "same edit as" not in v[0]) or "(none)"
    anchors = p["anchors"]
    mech = "\n".join("* %s (%s)" % (m["name"], m["where"]) for m in anchors.get("mechanism", []))
    txt = TEMPLATE.replace("{PID}", pid).replace("{TITLE}", p["title"]).replace("{STATEMENT}", p["statement"]).replace("{QUANT}", (p.get("quantifier") or {}).get("text", "")) \
        .replace("{FILES}", ", ".join(anchors.get("files", []))).replace("{MECH}", mech).replace("{PREV}", prev).replace("{OTHERS}", others).replace("{WT}", wt)
    open(os.path.join(wt, "TASK.md"), "w").write(txt)
    print("wrote", wt + "/TASK.md")
