#!/bin/bash
# usage: lib/refq.sh <worktree name under /tmp/mut> <R1|R2> <name> <checks, comma separated>
# Behaviour-preserving refactorings written by sub-agents (they saw the property statements and the hook contract, nothing
# of /verif): every quick check run against the refactored tree must stay silent (exit 0, no VIOLATION line).
# Runs from the committed snapshot /var/tmp/verif-snap, serialised per lane like lib/seedq.sh; results in /verif/refactors/<name>/.
wtn=$1; r=$2; name=$3; checks=$4
wt=/tmp/mut/$wtn
lane=$(( $(echo -n "$wt" | cksum | cut -d' ' -f1) % 2 ))
(
  flock 9 || exit 1
  out=/verif/refactors/$name
  mkdir -p "$out"
  cp "$wt/DELIVER/$r.diff" "$out/patch.diff"
  [ -f "$wt/DELIVER/README.md" ] && cp "$wt/DELIVER/README.md" "$out/author_notes.md"
  cd "$wt" && git checkout -q -- . && git clean -fdq src tests && git apply --whitespace=nowarn "DELIVER/$r.diff" || { echo "patch does not apply" > "$out/result.txt"; exit 1; }
  : > "$out/result.txt"
  echo "refactoring $name ($wtn/$r), framework commit $(git -C /var/tmp/verif-snap rev-parse --short HEAD), $(date -u +%FT%TZ)" >> "$out/result.txt"
  ( cd "$wt" && CARGO_NET_OFFLINE=true cargo test --offline --lib --test cc --test auto_collect 2>&1 | grep "test result" ) >> "$out/result.txt"
  cd /var/tmp/verif-snap
  for c in ${checks//,/ }; do
    o=$(VERIF_REPO=$wt ./check "$c" --tier quick 2>&1); rc=$?
    echo "$c: exit $rc $(echo "$o" | grep -c '^VIOLATION') violation line(s)" >> "$out/result.txt"
    echo "$o" | grep -E "^VIOLATION|oracle=|detail:|HARNESS|evaluations=" | cut -c1-900 | head -8 | sed 's/^/    /' >> "$out/result.txt"
  done
  cd "$wt" && git checkout -q -- .
) 9>/tmp/seedq-$lane.lock > /tmp/ref-$name.log 2>&1 &
