#!/usr/bin/env python3
"""Writes /verif/MANIFEST.json from the table below (run after adding / removing a check)."""
import json
import os
import subprocess

ROOT = os.path.dirname(os.path.dirname(os.path.abspath(__file__)))

HARNESS_NOTE = ("Trusted base: the Trace-contract-abiding payload shims, the API-level shadow model (holder multiset, Reach / Remain), the "
                "instrumented global allocator, the read-only verif-hooks (box / side-record observer, buffer walk, byte threshold), rustc, "
                "Miri / ASan / valgrind for the memory-safety clauses. Decides only the executions produced; counts are in the evidence file.")

CHECKS = {
    "C01": ("exploration", "3 C01", "runtime monitoring: shadow-model reachability walk over real derefs + quarantine allocator + Miri/ASan/memcheck on random & directed histories",
            "Every quiescent point of every generated history: each object the model says is reachable is dereferenced for real (canary, payload bytes, "
            "box live in the allocator's ground truth, not quarantined) and its Drop / box-dealloc events are judged the moment they happen. "
            "Exploration is the right level: the property quantifies over histories, and premature reclamation depends on hidden state only long / adversarial histories build up."),
    "C02": ("exploration", "3 C02", "runtime monitoring: collect-until-quiet, then set comparison of the allocator's live boxes against the model's Remain fixpoint; allocated_bytes() compared with the sum of live box sizes",
            "After every collect-until-quiet of a panic-free history the set of still-allocated objects must equal what an ideal collector may leave (reachable objects plus garbage pinned through untraced fields)."),
    "C03": ("exploration", "3 C03", "runtime monitoring: instrumented allocator (double / unknown / mis-layout free online), exactly-once matching alloc -> drop -> dealloc per object and per weak side record, promptness at every API return, leak check at history end; Miri/ASan/memcheck independently",
            "Allocator-level ground truth for every block the crate allocates, on all histories of the other checks' generators with the C03 weights."),
    "C04": ("exploration", "3 C04", "runtime monitoring: strong_count() through every program-reachable handle compared with the model's holder multiset at every quiescent point and inside finalizers; cascade invariant (zero holders outside a collection => dropped and freed before the drop returns)",
            "Count comparison on every reachable handle after every operation, cascade invariant at the exit of every release."),
    "C05": ("exploration", "3 C05", "runtime monitoring: per-object temporal automaton over finalize / drop / re-arm events (latched 'was unreachable'), finalizer-side walk of everything reachable from the object, already_finalized() compared with the model",
            "Online temporal checker on the callback event stream of both reclamation paths, finalizer scripts drawn from the full action list."),
    "C06": ("exploration", "3 C06", "runtime monitoring: C01 walk + C02 Remain comparison + C05 automaton restricted to histories in which finalizers resurrect (clone / move / Weak::upgrade into globals or live slots); logical callback-count bound per collection for termination",
            "Histories weighted towards resurrection, later death of the resurrected objects, and repeated collect-until-quiet."),
    "C07": ("fault_enumeration", "3 C07", "fault injection: every (callback kind, invocation index) of each base history re-run with a panic injected there, caught at the API boundary; collector idleness + degraded-mode safety oracles on the continuation; Miri/ASan/memcheck replays",
            "Fault enumeration is the level the quantifier asks for: every crash point k of every callback kind of each base history is executed (sampled only above 600 points per history), with single and double faults."),
    "C08": ("exploration", "3 C08", "runtime monitoring: per-call comparison of Weak::upgrade results (Some / None, identity, canary) against the model at the instant of the call, from top level, finalizers, cleaning actions, destructors; differential runs with / without weak traffic",
            "Every upgrade call in every generated history is judged; reclamation digests of paired runs are compared."),
    "C09": ("exploration", "3 C09", "runtime monitoring: weak_count / strong_count queries on every reachable Cc and Weak compared with the model's handle multisets; side-record allocation events (hook) matched alloc -> dealloc after box and last Weak",
            "Count comparison at every quiescent point plus allocator-level lifetime of every side record."),
    "C10": ("exploration", "3 C10", "runtime monitoring: per-action run counters, marker fields around the Cleaner field give cleaner-drop enter / exit events, clean() pre/post comparison, C08/C01 oracles inside actions",
            "Every registered action of every generated history is followed from registration to the exit of its Cleaner's drop."),
    "C11": ("exploration", "4 C11", "runtime monitoring: allocated_bytes() vs sum of live managed boxes (observer cross-checked with the allocator), executions_count() vs collections actually started, buffered_objects_count() vs hook walk of the buffer (length, links, marks), exact buffered set vs the statement's enter/leave rules (tri-state model)",
            "Judged after every operation and inside callbacks; exact-set comparison only where the model is certain (count of skipped comparisons in evidence)."),
    "C12": ("exploration", "4 C12", "runtime monitoring: is_tracing() sampled inside every Trace / Finalize / Drop / action shim; nested collect / Cc::new from callbacks must be no-ops under a collection; try_unwrap / finalize_again from finalizers and destructor contexts",
            "All nestings the generator produces: collection under Cc::new, callbacks under collections and under plain drops, two levels deep."),
    "C13": ("exploration", "4 C13", "runtime monitoring: try_unwrap result vs strong_count() before the call, moved-out value integrity, no callback during the call, box released (allocator), buffer membership (hook walk), Weak behaviour afterwards; Err leaves counts / flags / buffering unchanged",
            "Histories weighted towards try_unwrap on objects in every preparation state."),
    "C14": ("fault_enumeration", "4 C14", "fault injection inside new_cyclic: closure panic and every callback of a collection started by new_cyclic's own allocation; canary on never-constructed values, box / side-record release, Weak dead inside the closure and after a panic; Miri/memcheck for uninitialised reads",
            "Every fault point that lies inside a new_cyclic call of each base history is executed."),
    "C15": ("exploration", "4 C15", "runtime monitoring: trigger decision of every creation compared with the documented condition evaluated on the pre-state (byte threshold through the hook); threshold post-conditions after every collection; boundary-steering workload (allocated == threshold-8 / threshold / threshold+8, buffered == threshold / threshold+1)",
            "Hundreds of thousands of trigger decisions, thousands at the exact boundaries, thresholds climbing and falling through many doublings / halvings under all adjustment_percent / buffered-threshold settings."),
    "C16": ("exploration", "4 C16", "runtime monitoring: climb to the strong (16382) and weak (32767) limits through every acquisition route under catch_unwind, all observers (strong_count, weak_count, Weak counts, already_finalized) compared before / after every step near the limit, hysteresis, then death of the object (finalize once, drop once, bytes back to baseline); Miri/ASan/valgrind replays",
            "All scenarios of the route x side-record x finalized x cycle-shape grid are enumerated (exhaustive over the stated grid)."),
    "C17": ("exploration", "4 C17", "runtime monitoring: counting probe leaves at every position of every implemented container (macro-enumerated grid), hit counts vs the holder's own trace count, cycle-through-position reclamation, survive-through-position, borrowed RefCell, direct Finalize calls; Miri/ASan/valgrind replays",
            "The grid of container types x positions x modes is enumerated completely (exhaustive over the stated bounds)."),
    "C18": ("exploration", "4 C18", "runtime monitoring of generated derive shapes (hit-count oracle per field / variant) + observation of rustc's verdict on Drop-conflict probes (E0119 expected / unsafe_no_drop compiles and runs the destructor)",
            "Enumerated core of shapes (all ignore masks up to 4 fields, all enums up to 3 variants) plus seeded random shapes up to 8 fields / 4 variants."),
    "C19": ("exploration", "4 C19", "runtime monitoring: N in {2,4,8,16} threads each running the full single-thread monitor, barrier-delimited idle windows (counters / configuration of an idle thread must not move), allocator log with thread ids (cross-thread free), ThreadSanitizer, Miri; teardown matrix in child processes / threads (exit status, drop counters, allocator ground truth)",
            "Schedules that occurred natively, under TSan and under Miri; both thread-local destruction orders x six object states x thread / main-thread exit."),
    "C20": ("exploration", "4 C20", "runtime monitoring: addresses returned by Deref / AsRef / Borrow sampled after every operation of churn histories on a 48-point size x alignment grid (ZST and 4096-aligned included), ptr_eq on all handle pairs, forwarding impls (Eq/Ord/PartialOrd/Hash/Debug/Display/Default) compared with T on all ordered pairs of seven value domains; Miri checks reference alignment itself",
            "Layout grid and value-pair domains enumerated (exhaustive over the stated grid); churn histories seeded."),
}

PENDING = {
}


def main():
    head = subprocess.run(["git", "-C", "/repo", "log", "--format=%h %s", "-n", "12"], stdout=subprocess.PIPE, text=True).stdout.splitlines()
    hooks = [l.split()[0] for l in head if "verification hooks" in l]
    checks = []
    for pid in sorted(CHECKS):
        if not os.path.exists(os.path.join(ROOT, "checks", pid + ".py")):
            continue
        level, ref, tech, text = CHECKS[pid]
        if pid <= "C14":
            tech += "; workloads: seeded random, directed, small-scope exhaustive with novelty pruning, novelty-guided mutational (evolve) histories"
        checks.append({
            "property_id": pid,
            "quick_cmd": "./check %s --tier quick" % pid,
            "thorough_cmd": "./check %s --tier thorough" % pid,
            "evidence_file": "/verif/evidence/%s.json" % pid,
            "replay_cmd_template": "./check %s --replay {path}" % pid,
            "engine": "ccmon" if pid not in ("C16", "C17", "C18", "C20") else {"C17": "p_containers", "C18": "p_derive"}.get(pid, "p_ptr"),
            "level_claimed": {"category": level, "text": text, "design_ref": "DESIGN.md section " + ref},
            "level_note": HARNESS_NOTE,
            "technique": tech,
        })
    claimed = {c["property_id"] for c in checks}
    na = [{"property_id": p, "reason": r} for p, r in sorted(PENDING.items()) if p not in claimed]
    man = {
        "version": 1,
        "setup_cmd": "./check --setup",
        "hooks": {
            "guard": "cargo feature verif-hooks of rust-cc (off by default)",
            "enable": "the harness crates depend on rust-cc with features = [\"std\", \"verif-hooks\", ...]; checks build them with cargo --offline from /repo's working tree",
            "baseline_off_cmd": "cd /repo && cargo test --workspace --no-fail-fast --offline",
            "source_commits": hooks,
            "add_only": True,
        },
        "engines": [
            {"name": "ccmon", "path": "/verif/harness", "serves_properties": [p for p in sorted(claimed) if p not in ("C16", "C17", "C18", "C20")],
             "kind_free_text": "operation interpreter + shadow model + oracles over the real crate; random / directed / exhaustive / novelty-guided mutational generators; fault enumeration; replayed under Miri, ASan, valgrind"},
            {"name": "p_containers", "path": "/verif/p_containers", "serves_properties": ["C17"], "kind_free_text": "enumerated container grid with counting probes"},
            {"name": "p_derive", "path": "/verif/p_derive", "serves_properties": ["C18"], "kind_free_text": "generator of derive shapes + run-time hit-count oracle + compile probes"},
            {"name": "p_ptr", "path": "/verif/p_ptr", "serves_properties": ["C16", "C20"], "kind_free_text": "saturation scenarios; layout grid + forwarding-impl comparison"},
            {"name": "driver", "path": "/verif/lib/driver.py", "serves_properties": sorted(claimed), "kind_free_text": "builds from /repo, runs shards with watchdogs, merges reports, matches known findings, writes evidence"},
        ],
        "checks": checks,
        "notes": "Technique family: runtime monitoring and sanitizers. Six genuine defects were found by these checks and repaired with 'fix:' commits in /repo (see known_findings.json, all status=fixed; DESIGN.md section 7 and 9).",
        "not_applicable": na,
    }
    with open(os.path.join(ROOT, "MANIFEST.json"), "w") as f:
        json.dump(man, f, indent=1)
    print("claimed:", sorted(claimed), "pending:", [x["property_id"] for x in na])


if __name__ == "__main__":
    main()
