#!/usr/bin/env python3
"""What each seeded mutant needs in order to manifest (from the authors' notes), merged into seeded/<id>/meta.json."""
import json
import os

ROOT = os.path.dirname(os.path.dirname(os.path.abspath(__file__)))

NOTES = {
    "C01-M1": ("deallocate_list's DroppingListGuard bound to `_` (dropped at once): dropping_list is false while the collector runs destructors",
               "a garbage set of >= 2 objects; code running in the collector's drop phase (destructor of an untraced field / cleaning action) upgrades a Weak to a not-yet-dropped peer of the same set and keeps the Cc; needs weak-ptrs"),
    "C01-M2": ("increment_counter compares the raw cell (flags included) with MAX",
               "an object with a flag bit set (already finalized, or downgraded) and >= 2^14-1 live handles: the count carries into the flag bits, a later drop is taken for the last one"),
    "C02-M1": ("Cc::drop: an object resurrected by its finalizer is only decremented, not buffered",
               "last Cc dropped outside a collection; the finalizer upgrades a self-Weak and stores the Cc in a traced field of the object itself (or of something only it owns): an unreachable, unbuffered cycle no collection can find; needs weak-ptrs"),
    "C02-M2": ("collect_cycles() / trigger_collection return early when is_dropping() as well",
               "collect_cycles() called from a destructor or cleaning action that runs under a plain Cc::drop (outside collections) silently does nothing"),
    "C03-M1": ("Cc::drop un-buffers the object only just before freeing it (after drop_in_place)",
               "object buffered earlier, last Cc dropped outside a collection, its destructor starts a collection (or panics, then a later collection): the half-destroyed object is dropped and freed twice"),
    "C03-M2": ("try_unwrap calls drop_metadata() before reading the layout",
               "a side record exists with weak count 0 (a Weak was created and dropped) and try_unwrap succeeds: layout read from the freed side record; needs weak-ptrs"),
    "C04-M1": ("trace_roots keeps its work lists in ManuallyDrop: not cleaned when root tracing unwinds",
               "two buffered roots in one collection, Trace::trace panics in the root phase while another root is still queued; that object keeps an IN_LIST mark, so the later drop of its last Cc only decrements"),
    "C04-M2": ("Weak::upgrade builds the Cc before incrementing the counter",
               "strong count exactly at the limit (16382) and one upgrade(): the overflow panic unwinds through the uncounted Cc, whose drop decrements: count too low; needs weak-ptrs"),
    "C05-M1": ("collect() clears state.finalizing without restoring it",
               "finalizer run by a plain Cc::drop, a collection runs during it (collect_cycles or auto-collect), then the finalizer allocates a Cc: it reports already_finalized()==false and is finalized later"),
    "C05-M2": ("the finalized bit is set after the finalizer runs (both paths)",
               "collector path, a finalizer resurrects its object and then panics (collection unwinds); the object dies again later and is finalized a second time without finalize_again"),
    "C06-M1": ("the size handed to PossibleCycles::swap_list counts only objects finalized in this pass",
               "a pass whose garbage mixes already-finalized and never-finalized objects (resurrected object dying together with a fresh one): buffer size undercounts; debug: subtract overflow panic in later passes, release: wrapped buffered_objects_count and garbage never reclaimed"),
    "C06-M2": ("same edit as C02-M1 (resurrected-in-Cc::drop object not buffered)",
               "last Cc dropped by the program, finalizer upgrades a Weak to itself and stores it somewhere reachable only from the object; needs weak-ptrs"),
    "C07-M1": ("trace_roots work lists in ManuallyDrop (same edit as C04-M1)",
               "panic on a root's second trace call while another root R2 is queued; later R2's only Cc is moved into a new live object, another live object owns a child: the later panic-free collection empties the real root list through R2's stale links and frees a reachable child"),
    "C07-M2": ("Cc::drop un-buffers the object only just before cc_dealloc (same edit as C03-M1)",
               "buffered object, last Cc dropped, its Drop panics (caught); the leaked dropped value is still buffered, a later collection traces and drops it again"),
    "C08-M1": ("dropping_list set / cleared by plain statements in deallocate_list (no guard)",
               "a destructor of a collected cycle panics (collection unwinds): the flag stays true; in a later collection Weak::upgrade from a finalizer on a member of its own set returns None although no destructor has run"),
    "C08-M2": ("WeakCounterMarker::increment_counter uses checked_add on the raw cell",
               "value dead (accessible flag clear) with 32767 Weaks and one more Weak::clone: the carry sets the accessible flag again, every Weak now dereferences the freed box"),
    "C09-M1": ("dropping_list reset by a plain statement at the end of deallocate_list (not on unwinding)",
               "a collector-run destructor panics; afterwards Weak::strong_count()/upgrade() from a finalizer of a later collection report 0 / None for live in-list objects"),
    "C09-M2": ("try_unwrap calls drop_metadata() before ptr::read / layout() (same edit as C03-M2)",
               "downgrade, drop every Weak, try_unwrap: side record freed then read"),
    "C10-M1": ("Cc::drop un-buffers only just before cc_dealloc (same edit as C03-M1)",
               "owner (or its cleaner map) is buffered when released by reference counting and a cleaning action starts a collection: the collector traces the half-destroyed object"),
    "C10-M2": ("Cleanable::clean replaces an emptied SlotMap by a fresh one (slot versions restart)",
               "register A, clean every action so the map empties, register B (gets A's old key), A.clean() again: runs B's action early"),
    "C11-M1": ("try_unwrap un-buffers (mark_alive) before its refusal checks",
               "unique buffered object, try_unwrap called from inside a callback (refused, Err kept): the object silently left the buffer"),
    "C11-M2": ("increment_executions_count moved to the end of collect()",
               "a collection that unwinds is never counted; callbacks inside a collection see a count that excludes it"),
    "C12-M1": ("the finalizing / dropping reset guards hoisted from collect() into collect_cycles()",
               "allocation-triggered collection started from a finalizer / destructor running under a plain Cc::drop: Trace::trace sees is_tracing()==false"),
    "C12-M2": ("the is_collecting() early return moved out of trigger_collection() into Cc::new only",
               "a finalizer / destructor of an object being collected calls Cc::new_cyclic while the byte threshold is exceeded: a second collection starts inside the running one; needs weak-ptrs"),
    "C13-M1": ("state.dropping saved / restored by plain statements around drop_in_place in Cc::drop",
               "a payload Drop run by a plain Cc::drop panics (caught): dropping stays true, try_unwrap refuses every unique pointer afterwards"),
    "C13-M2": ("try_unwrap calls drop_metadata() before reading the layout (same edit as C03-M2)",
               "side record once allocated (downgrade or new_cyclic) and no Weak alive at the call"),
    "C14-M1": ("new_cyclic allocates its placeholder box before trigger_collection",
               "auto-collect due at the call, garbage buffered, a callback of that collection panics: the placeholder box leaks (allocated_bytes inflated)"),
    "C14-M2": ("new_cyclic's PanicGuard no longer calls drop_metadata()",
               "the closure saves a clone of the Weak and panics: side record leaks and still says 'accessible'; after the freed box's memory is reused the saved Weak comes back to life"),
    "C15-M1": ("the two guards of the shrink loop of Config::adjust swapped (clamp before the allocated check)",
               "adjustment_percent >= 0.5, a collection ends with the threshold at exactly 200 and 100 <= allocated <= 200*percent: threshold becomes 100 <= allocated"),
    "C15-M2": ("should_collect rewritten as auto && bytes || buffered (precedence slip)",
               "auto_collect disabled, a buffered threshold configured and exceeded at a Cc::new: a collection starts"),
    "C16-M1": ("Weak::upgrade builds the Cc before incrementing (same edit as C04-M2)",
               "strong count exactly 16382 and the limit hit through upgrade"),
    "C16-M2": ("increment_counter compares the raw cell with MAX (same edit as C01-M2)",
               "strong count at the limit on an already-finalized or downgraded object: clone 16383 succeeds, the count reaches the reserved value and carries into the flags"),
    "C17-M1": ("Trace for [T] returns early when !needs_drop::<T>(); Vec and arrays delegate to the slice impl",
               "Vec / array / slice of ManuallyDrop<..Cc..> (never needs drop, yet traced by the crate): reports nothing, cycles through it leak"),
    "C17-M2": ("Option / Result Trace + Finalize rewritten as `for x in self`",
               "a Result in the Err variant owning a Cc / with a finalizer: never traced, never finalized"),
    "C18-M1": ("attribute scan uses take_while instead of filter",
               "another attribute (doc comment, #[allow], cfg_attr) written before #[rust_cc(ignore)] on the same field / variant: the ignore marker is lost and the field is traced"),
    "C18-M2": ("early return for enums whose variants are all ignored skips the Drop impl",
               "an enum in which every variant is #[rust_cc(ignore)]: a user-written Drop compiles"),
    "C19-M1": ("add_to_list uses POSSIBLE_CYCLES.with instead of try_with",
               "a user thread-local initialised before the thread's first Cc operation (destroyed after the buffer) drops a Cc whose count is > 1: panic inside a TLS destructor, abort"),
    "C19-M2": ("impl Drop for State (debug_assert only) makes STATE destructible",
               "a user thread-local registered before the first Cc operation still owns a unique Cc at exit: 'Couldn't access the state' panic in a TLS destructor, abort"),
    "C20-M1": ("PartialEq for Cc gets a ptr_eq fast path",
               "both operands point to the same allocation and T's == is not reflexive (NaN)"),
    "C20-M2": ("Debug / Display for Cc rewritten through write!(f, \"{:?}\" / \"{}\")",
               "a non-default format specifier (width, precision, #, x?)"),
    # ---- round 2 (authors were told what had been submitted before) ----
    "C01-M3": ("__collect: has_finalized overwritten per object instead of accumulated",
               "a garbage set mixing to-be-finalized and already-finalized objects, an already-finalized one last in the list, an earlier finalizer of the same pass resurrects part of the graph: the re-trace is skipped and reachable objects are freed"),
    "C01-M4": ("the unwinding guard of trace_counting walks the buffer through prev links (only the first leftover object is reset)",
               "counting phase unwinds with >= 2 objects still buffered, a non-first one already counted; later panic-free collection frees it while held"),
    "C02-M3": ("after a finalization pass the objects buffered by finalizers are dropped from the buffer (empty list appended)",
               "a collector-run finalizer releases the last program-reachable handle of another cycle: that cycle is never reclaimed"),
    "C02-M4": ("deallocate_list skips freeing boxes whose counter is not zero after the destructors ran",
               "garbage owned through a traced field that its owner's drop glue does not release (ManuallyDrop<Cc<T>>): dropped but never deallocated"),
    "C03-M3": ("try_unwrap reads the value out before the refusal checks",
               "unique Cc with a non-trivial destructor, try_unwrap called from a finalizer / cleaning action (refused): the bitwise copy is dropped, and the value again later"),
    "C03-M4": ("root tracing condition loosened (counter == tracing_counter dropped)",
               "three live buffered objects R, C, N buffered in that order, R holding a Cc to C (with finalization: an earlier identical collection): waiting roots end up in the list to free"),
    "C04-M3": ("State::is_dropping_list() reads the dropping cell",
               "callbacks nested three deep: collector finalizer drops the last Cc of an outside object whose cleaning action queries a Weak to a cycle member: strong_count 0 / upgrade None for a live object"),
    "C04-M4": ("the decrement on the in-list fast path of Cc::drop written inside debug_assert!",
               "release builds only: a collector-run finalizer drops a Cc to a member of its own garbage set: count too high, never reclaimed"),
    "C05-M3": ("unwinding reset of tracing counters moved into the per-object guard (resets the wrong object)",
               "counting phase unwinds after buffered objects were counted; a later collection finalizes an object the program still holds"),
    "C05-M4": ("Finalize for RefCell<T> forwards under try_borrow_mut",
               "managed value that is directly a RefCell: finalizer skipped while a shared borrow is outstanding / finalizer cannot read its own cell"),
    "C06-M3": ("CcBox::new: born-finalized flag is is_finalizing() && !is_dropping()",
               "a finalizer that creates and releases an object of its own kind, first run as a field of another object being destroyed: unbounded finalizer recursion"),
    "C06-M4": ("reset_tracing_counter moved from mark_self_and_append into finalize_inner",
               "R finalized and resurrected once, later in a garbage cycle with a fresh N whose finalizer resurrects R: stale tracing counter, R and N freed while held"),
    "C07-M3": ("the unwinding guard of trace_counting skips its reset until one object has been fully traced",
               "the first traced (most recently buffered) object's nested trace panics after it traced a Cc to a still-buffered object"),
    "C07-M4": ("a guard re-buffers the cycle when a finalizer panics but does not reset the tracing counters",
               "garbage cycle of >= 2, first finalizer resurrects its own object, second finalizer panics, later collection: freed while held (release) / assertion (debug)"),
    "C08-M3": ("State::is_dropping_list() returns false while finalizing is set",
               "collector drop phase; the drop glue of the node dropped first releases the last Cc of an untraced object whose finalizer upgrades a Weak to a not-yet-dropped peer"),
    "C08-M4": ("Weak::strong_count refuses only in-list objects whose counter equals their tracing counter",
               "garbage set of >= 3 where P is referenced by two others; after one referent was dropped, a destructor-side probe upgrades a Weak to P"),
    "C09-M3": ("try_unwrap calls drop_metadata() only when weak_count() != 0",
               "downgrade, release every Weak, successful try_unwrap: the side record is never released"),
    "C09-M4": ("set_finalized(false) clears with & COUNTER_MASK (also clears the side-record bit)",
               "an object with a side record and finalize_again(): Cc::weak_count drops to 0, a second side record is allocated later"),
    "C10-M3": ("Cleanable::clean keeps the upgraded Cc<CleanerMap> until it returns (borrow released earlier)",
               "an action run through clean() releases its own Cleaner's owner while other actions are pending: they run when clean() returns"),
    "C10-M4": ("Cc::drop skips remove_from_list while a collection is running",
               "an allocation is buffered and then loses its last pointer inside one collection's destructor phase (action cleans a neighbour's Cleanable; two actions drop the last captured Ccs): freed box stays linked in the buffer"),
    "C11-M3": ("Cc::downgrade no longer un-buffers",
               "an object that is already buffered when it is downgraded (also: register, clean, register again on one cleaner)"),
    "C11-M4": ("Cc::drop skips buffering for managed types without drop glue",
               "Cc<u64>, arrays, Copy structs: dropping one of several Ccs does not buffer"),
    "C12-M3": ("a shared FinalizingGuard clears state.finalizing instead of restoring it",
               "a finalizer drops the last Cc of another object that still needs finalization: afterwards is_tracing() is true inside finalizers / try_unwrap Ok in a finalizer"),
    "C12-M4": ("the dropping reset guard of collect() ends up under cfg(feature = finalization)",
               "without the finalization feature: a collection requested from a destructor under a plain Cc::drop traces with is_tracing()==false"),
    "C13-M3": ("Cc::drop forgets the finalizing guard on the resurrected-object early return",
               "an object resurrected by its own finalizer during a top-level Cc::drop: finalizing stays true, every later try_unwrap of a unique pointer returns Err"),
    "C13-M4": ("the unwinding guard of trace_counting also un-marks the objects still buffered",
               "victim buffered, a panicking-Trace object buffered after it, collection unwound, victim try_unwrapped before any successful collection: freed while linked in the buffer"),
    "C14-M3": ("new_cyclic: Weak declared after the PanicGuard, guard only clears the accessible bit",
               "closure panics with no clone of the Weak outstanding: side record leaks"),
    "C14-M4": ("new_cyclic: initial weak-count increment written inside debug_assert!",
               "release builds: closure saves a clone outside the value: side record freed while the clone exists"),
    # ---- round 3 (fresh authors; told only what had been submitted for their own property) ----
    "C01-M5": ("Cc::drop: remove_from_list moved from before drop_in_place to just before cc_dealloc (same edit as C03-M1)",
               "buffered object, last handle dropped, its destructor-side code (untraced field's Drop, cleaning action) starts a collection; a Cc field points to an object the program also holds"),
    "C01-M6": ("new_cyclic: the re-increment of the strong counter after the closure written inside debug_assert!",
               "release builds, weak-ptrs: the handle returned by new_cyclic is not counted; a clone dropped while another handle lives, or a cycle through the object collected while held"),
    "C02-M5": ("CcBox::trace counting arm: increment_tracing_counter() for still-buffered objects written inside debug_assert!",
               "release builds: >= 2 members of one unreachable cycle in the buffer, the one popped first pointing to one still buffered: whole component classed as roots and never reclaimed"),
    "C02-M6": ("Cc::drop skips buffering (decrement only) while the collector's drop phase runs (is_dropping_list)",
               "a cycle owned only through an untraced Cc field / action capture, already examined (not buffered), whose owner is itself cyclic garbage: last outside handle released inside deallocate_list, never reclaimed"),
    "C03-M5": ("trace_counting: the unwinding guard that resets tracing counters of still-buffered objects removed (reverts the repair of F1)",
               "Trace panics during counting after tracing a Cc to a still-buffered object; later panic-free collection frees it while owned; second drop + free when the owner goes"),
    "C03-M6": ("increment_counter compares the raw cell with MAX (same edit as C01-M2 / C16-M2)",
               "finalized flag set + > 16382 Ccs, release build"),
    "C04-M5": ("CounterMarker::reset_tracing_counter stores NON_MARKED (also wipes the 2-bit mark)",
               "two buffered objects, counting phase unwinds on a caught Trace panic while the other is still buffered; its last Cc dropped (or mark_alive / clone): freed while linked in POSSIBLE_CYCLES"),
    "C04-M6": ("Cc::drop: the finalizing guard replaced by hand-written save / set / reset (skipped on the resurrection early return and on unwinding)",
               "a finalizer run by a plain last-owner drop resurrects its object (weak self-upgrade) or panics: finalizing stays true; later objects are born finalized, try_unwrap refuses"),
    "C05-M5": ("increment_counter compares the raw cell with MAX (same edit as C01-M2)",
               "object with the finalized flag set and >= 16383 Ccs; release build shows the finalizer call"),
    "C05-M6": ("__collect: has_finalized assigned per object instead of accumulated (same edit as C01-M3)",
               "collector path, mixed set whose last visited member is already finalized, a finalizer that changes the graph"),
    "C07-M5": ("finalize_inner: set_finalized(true) moved after the finalizer call (same edit as C05-M2, collector path only)",
               "a finalizer panics inside a collection (caught); the set becomes collectable again: finalized a second time"),
    "C07-M6": ("new_cyclic PanicGuard no longer calls drop_metadata() (same edit as C14-M2)",
               "closure saves a clone of the Weak and panics; later query of the saved Weak after the freed block was reused / poisoned"),
    "C08-M5": ("Cc::drop: cc_dealloc moved into a guard created before drop_in_place (drop_metadata stays after it)",
               "a destructor panics under a plain Cc::drop while a Weak survives: box freed, side record still says accessible; later strong_count / upgrade read freed memory"),
    "C08-M6": ("new_cyclic: decrement / re-increment of the strong counter around the closure both written inside debug_assert!",
               "release builds: while the closure runs the uninitialised box has strong count 1: strong_count() == 1, upgrade() returns Some"),
    "C09-M5": ("Weak::drop: the weak-counter decrement written inside debug_assert!",
               "release builds: weak_count never goes down, every side record leaks"),
    "C09-M6": ("Weak::clone builds the new Weak before incrementing the counter",
               "32767 Weaks, one more clone refused (panic caught): the uncounted Weak's drop decrements: count too low, side record freed one Weak early"),
    "C10-M5": ("WeakCounterMarker::increment_counter compares the raw cell (accessible bit included) with MAX",
               "> 32767 live Cleanables on one Cleaner, release build: the cell wraps and clears the accessible flag: clean() does nothing, metadata freed early"),
    "C10-M6": ("Weak::upgrade builds the Cc before incrementing (same edit as C04-M2 / C16-M1)",
               "a cleaning action upgrades a Weak to an owner already at 16382 strong handles"),
    "C06-M5": ("finalize_inner: set_finalized(true) moved after the finalizer call (same edit as C07-M5)",
               "collector-run finalizer resurrects its object and panics; the object dies again later: second finalization"),
    "C06-M6": ("Cc::drop: the restoring finalizing guard replaced by set_finalizing(true) .. set_finalizing(false)",
               "a finalizer that first releases the last Cc of a not-yet-finalized object (nested Cc::drop clears the caller's flag) and then creates / clones / resurrects something: objects not born finalized, is_tracing() true in the finalization phase"),
}


def main():
    sd = os.path.join(ROOT, "seeded")
    for name in sorted(os.listdir(sd)):
        mp = os.path.join(sd, name, "meta.json")
        if not os.path.exists(mp) or name not in NOTES:
            continue
        with open(mp) as f:
            m = json.load(f)
        m["change"] = NOTES[name][0]
        m["needs_to_manifest"] = NOTES[name][1]
        m["breaks_property"] = m.get("property")
        suffix = name.rsplit("-", 1)[-1]
        m["origin"] = {"M1": "round 1: fresh sub-agent given only the property text", "M2": "round 1: fresh sub-agent given only the property text",
                       "M3": "round 2: written by a fresh sub-agent (property text + list of earlier edits); the patch file was lost with a sandbox restore and was re-created by another sub-agent from the author's one-line description, with a new demonstration",
                       "M4": "round 2: written by a fresh sub-agent (property text + list of earlier edits); the patch file was lost with a sandbox restore and was re-created by another sub-agent from the author's one-line description, with a new demonstration",
                       "M5": "round 3: fresh sub-agent given only the property text and the list of earlier edits", "M6": "round 3: fresh sub-agent given only the property text and the list of earlier edits"}.get(suffix, "")
        with open(mp, "w") as f:
            json.dump(m, f, indent=1)
    # summary table
    rows = []
    for name in sorted(os.listdir(sd)):
        mp = os.path.join(sd, name, "meta.json")
        if not os.path.exists(mp):
            continue
        with open(mp) as f:
            m = json.load(f)
        caught = [c for c, r in sorted(m.get("checks", {}).items()) if r.get("caught")]
        missed = [c for c, r in sorted(m.get("checks", {}).items()) if not r.get("caught")]
        rows.append((name, m.get("confirmed"), caught, missed))
    for r in rows:
        print("%-8s confirmed=%-5s caught by %-22s not by %s" % (r[0], r[1], ",".join(r[2]) or "-", ",".join(r[3]) or "-"))


if __name__ == "__main__":
    main()
