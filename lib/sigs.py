#!/usr/bin/env python3
"""Summarise VIOL lines on stdin: count per signature, show first replay."""
import sys, json, collections
c = collections.Counter(); first = {}
for line in sys.stdin:
    if line.startswith("VIOL "):
        v = json.loads(line[5:]); s = v["signature"]; c[s] += 1; first.setdefault(s, v)
    elif line.startswith("REPORT "):
        r = json.loads(line[7:]); k = r["counters"]
        print("REPORT evals=%d nontrivial=%d foreign=%s inconcl=%s" % (r["evaluations"], len(r["nontrivial_hashes"]), k.get("foreign_oracle_hits"), r["inconclusive"][:3]))
for s, n in c.most_common():
    v = first[s]
    print("%5d %s\n        replay: %s" % (n, s, " ".join(v["replay"])))
    if "-v" in sys.argv: print("        " + v["detail"][:1500])
