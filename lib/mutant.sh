#!/bin/sh
# usage: lib/mutant.sh <patch-file> <check-id>... : applies the patch to a scratch copy of /repo (never to /repo itself),
# optionally runs the pinned test suite there (MUT_TESTS=1), runs the quick tier of the given checks against it, removes the copy.
set -u
PATCH=$(readlink -f "$1"); shift
DIR=$(mktemp -d /var/tmp/rcc-verif-mut.XXXXXX)
trap 'rm -rf "$DIR"; rm -rf /verif/.build/alt-*' EXIT
rsync -a --exclude target --exclude .git /repo/ "$DIR/repo/"
( cd "$DIR/repo" && patch -p1 --no-backup-if-mismatch < "$PATCH" ) || { echo "PATCH-FAILED"; exit 3; }
if [ "${MUT_TESTS:-0}" = 1 ]; then
  ( cd "$DIR/repo" && CARGO_TARGET_DIR="$DIR/target" cargo test --offline --lib --test cc --test auto_collect 2>&1 | grep -E "^test result|FAILED" )
fi
for c in "$@"; do
  VERIF_REPO="$DIR/repo" /verif/check "$c" --tier "${MUT_TIER:-quick}" 2>&1 | grep -E "^VIOLATION|^KNOWN|^  oracle|^\[C|inconclusive" | head -12
done
