#!/usr/bin/env python3
"""Driver shared by every check of /verif (see DESIGN.md section 2.8).

A check is a python module /verif/checks/<ID>.py that exports
    LEVEL      evidence level ("exploration" / "fault_enumeration")
    RULE       text: how cases are generated and what makes one non-trivial / distinct
    def plan(ctx) -> list[Step]
The driver builds what the steps need from the repository working tree, runs the steps in
parallel with a watchdog each, merges the shard reports, matches violations against
known_findings.json, writes evidence/<ID>.json and prints VIOLATION / KNOWN-FINDING lines.

Shard protocol (stdout of every harness binary, one JSON document per line):
    VIOL {"property": "C01", "oracle": "...", "signature": "...", "detail": "...", "replay": [argv...]}
    REPORT {"evaluations": n, "nontrivial_hashes": [u64...] | "nontrivial_file": path,
            "counters": {name: int}, "samples": [...], "inconclusive": [str...], "sets": {name: [str...]}}
Exit status of a shard: 0 = ran to completion (violations, if any, were printed as VIOL lines);
anything else = crash / sanitizer report / harness error, classified by the driver.
"""
import argparse
import array
import concurrent.futures
import fcntl
import hashlib
import importlib.util
import json
import os
import re
import shutil
import signal
import subprocess
import sys
import time

ROOT = os.path.dirname(os.path.dirname(os.path.abspath(__file__)))
REPO = os.path.abspath(os.environ.get("VERIF_REPO", "/repo"))
ALT = REPO != "/repo"
# self-test against a scratch copy of the repository (mutants): separate build / evidence / replay directories
BUILD = os.path.join(ROOT, ".build") if not ALT else os.path.join(ROOT, ".build", "alt-" + hashlib.sha256(REPO.encode()).hexdigest()[:10])
OUT = ROOT if not ALT else BUILD
NCPU = int(os.environ.get("VERIF_JOBS", "16"))
TARGET = "x86_64-unknown-linux-gnu"

# The 12 consistent feature sets of rust-cc with std (nightly / no_std are out of scope, DESIGN.md section 1).
ALL_FEATURE_SETS = []
for fin in (True, False):
    for auto in (True, False):
        for wk in ("", "weak-ptrs", "weak-ptrs,cleaners"):
            fs = [x for x in (("finalization" if fin else ""), ("auto-collect" if auto else ""), wk) if x]
            ALL_FEATURE_SETS.append(",".join(fs))
FULL = "finalization,auto-collect,weak-ptrs,cleaners"
QUICK_FEATURE_SETS = [FULL, "auto-collect,weak-ptrs,cleaners", "finalization", ""]


class HarnessError(Exception):
    pass


def log(msg):
    sys.stderr.write(msg + "\n")
    sys.stderr.flush()


def featkey(features):
    return features.replace(",", "+").replace("-", "") if features else "none"


def base_env():
    env = dict(os.environ)
    env["CARGO_NET_OFFLINE"] = "true"
    env.setdefault("CARGO_TERM_COLOR", "never")
    env.pop("RUSTFLAGS", None)
    return env


class Step:
    def __init__(self, name, argv, tool="native", timeout=600, env=None, cwd=None, crash_property=None,
                 replay_hint=None, expect_report=True):
        self.name = name
        self.argv = argv
        self.tool = tool
        self.timeout = timeout
        self.env = env or {}
        self.cwd = cwd or ROOT
        self.crash_property = crash_property
        self.replay_hint = replay_hint
        self.expect_report = expect_report
        # filled by the runner
        self.rc = None
        self.timed_out = False
        self.wall = 0.0
        self.out_path = None
        self.err_path = None


class Ctx:
    """What a check's plan() sees."""

    def __init__(self, prop, tier, seed):
        self.prop = prop
        self.tier = tier
        self.seed = seed
        self.quick = tier == "quick"
        self.repo = REPO
        self.root = ROOT
        self.build_wall = 0.0
        self.notes = []
        self._built = {}
        self._warmed = set()

    def step(self, name, crate, binary, args, features="", profile="debug", tool="native", timeout=600,
             crash_property=None, miri_flags="", env=None, expect_report=True):
        """Builds (once per run) what is needed and returns the Step that runs `binary args` under `tool`
        (native | asan | tsan | valgrind | miri)."""
        spec = {"crate": crate, "binary": binary, "features": features, "profile": profile, "tool": tool,
                "miri_flags": miri_flags, "args": list(args), "env": dict(env or {})}
        e = dict(env or {})
        cwd = ROOT
        if tool == "miri":
            key = (crate, binary, features)
            if key not in self._warmed:
                self.miri_warm(crate, binary, features)
                self._warmed.add(key)
            argv, menv, cwd = self.miri_argv(crate, binary, features, args, flags=miri_flags)
            e.update(menv)
        else:
            btool = "native" if tool == "valgrind" else tool
            key = (crate, binary, features, profile, btool)
            if key not in self._built:
                self._built[key] = self.build(crate, binary, features, profile, btool)
            exe = self._built[key]
            if tool == "valgrind":
                argv = self.valgrind_argv(exe, args)
            else:
                argv = [exe] + list(args)
            if tool == "asan":
                e.setdefault("ASAN_OPTIONS", "halt_on_error=1:abort_on_error=0:detect_leaks=0:exitcode=98")
            if tool == "tsan":
                e.setdefault("TSAN_OPTIONS", "halt_on_error=1:exitcode=66")
        st = Step(name, argv, tool=tool, timeout=timeout, env=e, cwd=cwd, crash_property=crash_property,
                  expect_report=expect_report)
        st.spec = spec
        return st

    # -- builds -----------------------------------------------------------------------------
    def _lock(self, name):
        os.makedirs(BUILD, exist_ok=True)
        f = open(os.path.join(BUILD, name + ".lock"), "w")
        fcntl.flock(f, fcntl.LOCK_EX)
        return f

    def _crate_dir(self, crate):
        """The harness crate to build. With VERIF_REPO pointing elsewhere, a copy whose path dependency is rewritten."""
        src = os.path.join(ROOT, crate)
        if not ALT:
            return src
        base = os.path.join(BUILD, "crates")
        os.makedirs(base, exist_ok=True)
        if not hasattr(self, "_copied"):
            self._copied = set()
        if crate in self._copied:
            return os.path.join(base, crate)
        self._copied.add(crate)
        for c in (crate, "common"):
            dst = os.path.join(base, c)
            subprocess.run(["rsync", "-a", "--delete", "--exclude", "target", "--exclude", "Cargo.lock", os.path.join(ROOT, c) + "/", dst + "/"], check=True)
            toml = os.path.join(dst, "Cargo.toml")
            with open(toml) as f:
                t = f.read()
            t2 = t.replace('path = "/repo"', 'path = "%s"' % REPO).replace('path = "/verif/common"', 'path = "../common"')
            if t2 != t:
                with open(toml, "w") as f:
                    f.write(t2)
        return os.path.join(base, crate)

    def _ensure_lock(self, crate_dir):
        lock = os.path.join(crate_dir, "Cargo.lock")
        if not os.path.exists(lock):
            src = os.path.join(REPO, "Cargo.lock")
            if os.path.exists(src):
                shutil.copy(src, lock)

    def build(self, crate, binary, features="", profile="debug", tool="native", extra_rustflags=""):
        """Builds `binary` of /verif/<crate> against the repository working tree; returns the path of a
        private copy of the executable (so later builds with other features do not replace it)."""
        t0 = time.time()
        crate_dir = self._crate_dir(crate)
        self._ensure_lock(crate_dir)
        tdir = os.path.join(BUILD, tool + "-" + crate)
        env = base_env()
        argv = ["cargo"]
        if tool in ("asan", "tsan"):
            argv.append("+nightly")
        argv += ["build", "--offline", "--bin", binary, "--target-dir", tdir, "--no-default-features"]
        if features:
            argv += ["--features", features]
        if profile == "release":
            argv.append("--release")
        sub = profile
        if tool == "asan":
            env["RUSTFLAGS"] = ("-Zsanitizer=address -Cforce-frame-pointers=yes " + extra_rustflags).strip()
            argv += ["--target", TARGET]
            sub = os.path.join(TARGET, profile)
        elif tool == "tsan":
            env["RUSTFLAGS"] = ("-Zsanitizer=thread -Cforce-frame-pointers=yes " + extra_rustflags).strip()
            argv += ["-Zbuild-std", "--target", TARGET]
            sub = os.path.join(TARGET, profile)
        elif extra_rustflags:
            env["RUSTFLAGS"] = extra_rustflags
        lk = self._lock(tool + "-" + crate)
        try:
            r = subprocess.run(argv, cwd=crate_dir, env=env, stdout=subprocess.PIPE, stderr=subprocess.STDOUT, text=True)
            if r.returncode != 0:
                raise HarnessError("build failed: %s\n%s" % (" ".join(argv), r.stdout[-6000:]))
            src = os.path.join(tdir, sub, binary)
            bindir = os.path.join(BUILD, "bin")
            os.makedirs(bindir, exist_ok=True)
            dst = os.path.join(bindir, "%s-%s-%s-%s-%s" % (crate.replace("/", "_"), binary, featkey(features), profile, tool))
            tmp = dst + ".tmp%d" % os.getpid()
            shutil.copy2(src, tmp)
            os.replace(tmp, dst)
        finally:
            lk.close()
        self.build_wall += time.time() - t0
        return dst

    def miri_argv(self, crate, binary, features, args, seeds=None, flags=""):
        """argv + env + cwd for running a binary of /verif/<crate> under Miri."""
        crate_dir = self._crate_dir(crate)
        self._ensure_lock(crate_dir)
        tdir = os.path.join(BUILD, "miri-" + crate)
        argv = ["cargo", "+nightly", "miri", "run", "--offline", "--bin", binary, "--target-dir", tdir, "--no-default-features"]
        if features:
            argv += ["--features", features]
        argv += ["--"] + list(args)
        env = {"MIRIFLAGS": ("-Zmiri-disable-isolation " + flags).strip()}
        return argv, env, crate_dir

    def miri_warm(self, crate, binary, features, args=("--noop",)):
        """Builds the Miri artefacts once (serially) so that parallel shards do not fight for the build lock."""
        t0 = time.time()
        argv, env, cwd = self.miri_argv(crate, binary, features, args)
        e = base_env()
        e.update(env)
        lk = self._lock("miri-" + crate)
        try:
            r = subprocess.run(argv, cwd=cwd, env=e, stdout=subprocess.PIPE, stderr=subprocess.STDOUT, text=True)
        finally:
            lk.close()
        self.build_wall += time.time() - t0
        if r.returncode != 0:
            raise HarnessError("miri warm-up failed: %s\n%s" % (" ".join(argv), r.stdout[-6000:]))

    def valgrind_argv(self, exe, args):
        return ["valgrind", "--error-exitcode=97", "--quiet", "--leak-check=no", "--track-origins=no", exe] + list(args)


SAN_PATTERNS = [
    ("asan", re.compile(r"ERROR: AddressSanitizer: ([a-z\-]+)")),
    ("lsan", re.compile(r"ERROR: LeakSanitizer: (detected memory leaks)")),
    ("tsan", re.compile(r"WARNING: ThreadSanitizer: ([a-z \-]+)")),
    ("miri", re.compile(r"error: Undefined Behavior: (.*)")),
    ("miri", re.compile(r"error: (memory leaked.*)")),
    ("miri", re.compile(r"error: (unsupported operation.*)")),
    ("valgrind", re.compile(r"==\d+== (Invalid (?:read|write|free)[^\n]*|Conditional jump or move depends on uninitialised[^\n]*|Use of uninitialised[^\n]*|Mismatched free[^\n]*)")),
]


def first_repo_frame(text):
    m = re.search(r"(?:/repo|rust[-_]cc)[^\s:]*?/src/([a-z_/]+\.rs):(\d+)", text)
    if m:
        return "%s" % (m.group(1))
    return "?"


def run_step(step, logdir):
    os.makedirs(logdir, exist_ok=True)
    safe = re.sub(r"[^A-Za-z0-9_.\-]", "_", step.name)
    step.out_path = os.path.join(logdir, safe + ".out")
    step.err_path = os.path.join(logdir, safe + ".err")
    env = base_env()
    env.update(step.env)
    t0 = time.time()
    with open(step.out_path, "wb") as fo, open(step.err_path, "wb") as fe:
        try:
            p = subprocess.Popen(step.argv, cwd=step.cwd, env=env, stdout=fo, stderr=fe, start_new_session=True)
        except OSError as e:
            step.rc = -999
            fe.write(str(e).encode())
            return step
        try:
            step.rc = p.wait(timeout=step.timeout)
        except subprocess.TimeoutExpired:
            step.timed_out = True
            try:
                os.killpg(p.pid, signal.SIGKILL)
            except OSError:
                pass
            p.wait()
            step.rc = -9
    step.wall = time.time() - t0
    return step


def read_text(path, limit=4_000_000):
    try:
        with open(path, "rb") as f:
            data = f.read()
        if len(data) > limit:
            data = data[:limit // 2] + b"\n...[truncated]...\n" + data[-limit // 2:]
        return data.decode("utf-8", "replace")
    except OSError:
        return ""


def load_known():
    path = os.path.join(ROOT, "known_findings.json")
    if not os.path.exists(path):
        return []
    with open(path) as f:
        return json.load(f).get("findings", [])


def validate_evidence(ev):
    schema_path = "/root/.vp/EVIDENCE.schema.json"
    try:
        import jsonschema  # noqa
        with open(schema_path) as f:
            schema = json.load(f)
        jsonschema.validate(ev, schema)
        return "jsonschema"
    except ImportError:
        pass
    except FileNotFoundError:
        pass
    for k in ("property_id", "tier", "seed", "level", "coverage", "wall_s"):
        assert k in ev, k
    cov = ev["coverage"]
    assert isinstance(cov.get("evaluations"), int) and cov["evaluations"] >= 1
    assert isinstance(cov.get("distinct_nontrivial"), int) and cov["distinct_nontrivial"] >= 2
    assert isinstance(cov.get("rule"), str)
    assert isinstance(cov.get("samples"), list) and len(cov["samples"]) >= 1
    return "builtin"


def main():
    if len(sys.argv) > 1 and sys.argv[1] == "--setup":
        return setup(sys.argv[2:])
    ap = argparse.ArgumentParser()
    ap.add_argument("prop")
    ap.add_argument("--tier", default=os.environ.get("VERIF_TIER", "quick"), choices=["quick", "thorough"])
    ap.add_argument("--seed", type=int, default=None)
    ap.add_argument("--replay", default=None)
    ap.add_argument("--keep-logs", action="store_true")
    args = ap.parse_args()
    prop = args.prop
    seed = args.seed
    if seed is None:
        try:
            seed = int(os.environ.get("VERIF_SEED", "1"))
        except ValueError:
            seed = int(hashlib.sha256(os.environ["VERIF_SEED"].encode()).hexdigest()[:12], 16)
    t_start = time.time()

    if args.replay:
        return replay(prop, args.replay)

    modpath = os.path.join(ROOT, "checks", prop + ".py")
    if not os.path.exists(modpath):
        log("no such check: " + prop)
        return 2
    spec = importlib.util.spec_from_file_location("check_" + prop, modpath)
    mod = importlib.util.module_from_spec(spec)
    sys.path.insert(0, os.path.join(ROOT, "lib"))
    sys.path.insert(0, os.path.join(ROOT, "checks"))
    spec.loader.exec_module(mod)

    ctx = Ctx(prop, args.tier, seed)
    try:
        steps = mod.plan(ctx)
    except HarnessError as e:
        log("HARNESS-ERROR (inconclusive, not a verdict): " + str(e))
        return 2

    logdir = os.path.join(BUILD, "logs", "%s-%s" % (prop, args.tier))
    shutil.rmtree(logdir, ignore_errors=True)
    os.makedirs(logdir, exist_ok=True)
    log("[%s/%s seed=%d] %d steps, build %.1fs" % (prop, args.tier, seed, len(steps), ctx.build_wall))
    with concurrent.futures.ThreadPoolExecutor(max_workers=NCPU) as ex:
        list(ex.map(lambda s: run_step(s, logdir), steps))

    # ---- merge --------------------------------------------------------------------------------
    evaluations = 0
    counters = {}
    sets = {}
    samples = []
    inconclusive = list(ctx.notes)
    hashes = array.array("Q")
    viols = []
    tool_runs = {}
    for st in steps:
        tool_runs[st.tool] = tool_runs.get(st.tool, 0) + 1
        out = read_text(st.out_path)
        got_report = False
        for line in out.splitlines():
            if line.startswith("VIOL "):
                try:
                    v = json.loads(line[5:])
                except ValueError:
                    continue
                v.setdefault("step", st.name)
                v.setdefault("tool", st.tool)
                v["_spec"] = getattr(st, "spec", None)
                viols.append(v)
            elif line.startswith("REPORT "):
                try:
                    r = json.loads(line[7:])
                except ValueError:
                    continue
                got_report = True
                evaluations += int(r.get("evaluations", 0))
                for k, v in r.get("counters", {}).items():
                    if k.startswith("max_"):
                        counters[k] = max(counters.get(k, 0), int(v))
                    else:
                        counters[k] = counters.get(k, 0) + int(v)
                for k, v in r.get("sets", {}).items():
                    sets.setdefault(k, set()).update(v)
                for s in r.get("samples", []):
                    if len(samples) < 6:
                        samples.append(s)
                for h in r.get("nontrivial_hashes", []):
                    hashes.append(int(h) & 0xFFFFFFFFFFFFFFFF)
                for s in r.get("inconclusive", []):
                    inconclusive.append("%s: %s" % (st.name, s))
        if st.timed_out:
            inconclusive.append("%s: watchdog fired after %ds (inconclusive, not a verdict)" % (st.name, st.timeout))
            continue
        if st.rc != 0:
            err = read_text(st.err_path)
            both = err + "\n" + out
            found = None
            for tool, pat in SAN_PATTERNS:
                m = pat.search(both)
                if m:
                    found = (tool, m.group(1).strip())
                    break
            if found and found[1].startswith("unsupported operation"):
                inconclusive.append("%s: %s" % (st.name, found[1][:200]))
            elif found:
                viols.append({
                    "property": st.crash_property or prop, "oracle": "sanitizer:" + found[0],
                    "signature": "%s:%s:%s:%s" % (st.crash_property or prop, found[0], re.sub(r"0x[0-9a-f]+|\d+", "N", found[1])[:80], first_repo_frame(both)),
                    "detail": found[1][:400], "step": st.name, "tool": st.tool, "stderr_tail": err[-3000:],
                })
            elif st.rc == 101 and re.search(r"panic: [^\n]* at Some\(\"src/", err) and not re.search(r"panic: [^\n]* at Some\(\"/repo", err.split("panic:")[-1] if "panic:" in err else ""):
                # the harness itself panicked (its own source files): a harness bug, never a verdict
                inconclusive.append("%s: harness panic: %s" % (st.name, err[-300:].replace("\n", " | ")))
            elif st.rc == 3:
                inconclusive.append("%s: harness reported an internal error: %s" % (st.name, err[-400:].replace("\n", " | ")))
            elif st.rc in (-9, 137, -15, 143, -2, 130, -1, 129) or "memory allocation of" in err:
                # SIGKILL / SIGTERM / SIGINT / SIGHUP come from outside the process (OOM killer, an operator, a
                # supervising shell): nothing the code under test did
                inconclusive.append("%s: killed from outside / out of memory (rc=%s)" % (st.name, st.rc))
            else:
                # abnormal death of the real code under a legal program: abort, SIGSEGV, panic escaping the harness
                tail = (err[-1500:] or out[-1500:])
                m = re.search(r"panicked at ([^\n]*)", err)
                where = m.group(1) if m else ""
                where = re.sub(r":\d+:\d+", "", where)
                viols.append({
                    "property": st.crash_property or prop, "oracle": "crash",
                    "signature": "%s:crash:rc=%s:%s" % (st.crash_property or prop, st.rc, where[:80]),
                    "detail": "process died abnormally (rc=%s): %s" % (st.rc, tail.replace("\n", " | ")[-600:]),
                    "step": st.name, "tool": st.tool,
                })
        elif st.expect_report and not got_report:
            inconclusive.append("%s: exited 0 without a REPORT line" % st.name)

    by_name = {st.name: st for st in steps}
    for v in viols:
        if "_spec" not in v or v["_spec"] is None:
            st = by_name.get(v.get("step"))
            v["_spec"] = getattr(st, "spec", None) if st else None
    distinct = len(set(hashes))
    # ---- verdict ------------------------------------------------------------------------------
    known = load_known()
    new_viols = []
    known_hits = {}
    for v in viols:
        if v.get("property") != prop and not getattr(mod, "REPORT_FOREIGN", False):
            counters["foreign_oracle_hits"] = counters.get("foreign_oracle_hits", 0) + 1
            continue
        sig = v.get("signature", "")
        hit = None
        for k in known:
            if k.get("status", "known") != "known":
                continue  # "fixed" entries suppress nothing
            if k.get("property") == v.get("property") and k.get("signature") == sig:
                hit = k
                break
        if hit:
            known_hits.setdefault(hit["id"], [hit, 0])[1] += 1
        else:
            new_viols.append(v)

    replays_dir = os.path.join(OUT, "replays")
    os.makedirs(replays_dir, exist_ok=True)
    printed = set()
    nv = 0
    for v in new_viols:
        sig = v.get("signature", "")
        if sig in printed:
            continue
        printed.add(sig)
        nv += 1
        if nv > 20:
            break
        spec = v.pop("_spec", None) or {}
        if v.get("replay"):
            spec = dict(spec)
            spec["args"] = list(v["replay"])
        rp = os.path.join(replays_dir, "%s-%s-%s.json" % (v.get("property", prop), args.tier, hashlib.sha256((sig + json.dumps(spec, sort_keys=True)).encode()).hexdigest()[:12]))
        with open(rp, "w") as f:
            json.dump({"property": v.get("property", prop), "check": prop, "tier": args.tier, "seed": seed, "run": spec, "violation": v}, f, indent=1)
        print("VIOLATION property=%s replay=%s" % (v.get("property", prop), rp))
        print("  oracle=%s signature=%s" % (v.get("oracle"), sig))
        print("  detail: %s" % str(v.get("detail", ""))[:1500])
    for kid, (k, n) in sorted(known_hits.items()):
        print("KNOWN-FINDING: property=%s %s [%s, seen %d times in this run]" % (k["property"], k["what"], kid, n))

    floors = getattr(mod, "floors", None)
    if floors:
        for msg in floors(ctx, evaluations, distinct, counters, sets):
            inconclusive.append("coverage floor not met: " + msg)

    wall = time.time() - t_start
    cov = {
        "evaluations": evaluations,
        "distinct_nontrivial": distinct,
        "rule": mod.RULE,
        "samples": samples if samples else ["(no sample produced)"],
        "exhaustive": bool(getattr(mod, "EXHAUSTIVE", False)) and not inconclusive,
        "counters": counters,
        "sets": {k: sorted(v)[:200] for k, v in sets.items()},
        "set_sizes": {k: len(v) for k, v in sets.items()},
        "steps": len(steps),
        "slowest_steps_s": {st.name: round(st.wall, 1) for st in sorted(steps, key=lambda st: -st.wall)[:5]},
        "tool_runs": tool_runs,
        "build_wall_s": round(ctx.build_wall, 1),
        "inconclusive_reasons": inconclusive[:50],
        "known_findings_seen": {kid: n for kid, (k, n) in known_hits.items()},
        "verdict": "violated" if new_viols else ("inconclusive" if inconclusive else "held_on_observed"),
    }
    ev = {
        "property_id": prop, "tier": args.tier, "seed": seed, "level": mod.LEVEL, "coverage": cov,
        "assumptions": list(getattr(mod, "ASSUMPTIONS", [])),
        "wall_s": round(wall, 2), "violations": len(printed),
    }
    try:
        how = validate_evidence(ev)
        cov["validated_with"] = how
    except Exception as e:  # evidence that does not validate is still written, and said so
        log("evidence does not validate: %r" % (e,))
        cov["validated_with"] = "FAILED: %r" % (e,)
    os.makedirs(os.path.join(OUT, "evidence"), exist_ok=True)
    tmp = os.path.join(OUT, "evidence", prop + ".json.tmp")
    with open(tmp, "w") as f:
        json.dump(ev, f, indent=1, sort_keys=True)
    os.replace(tmp, os.path.join(OUT, "evidence", prop + ".json"))
    log("[%s/%s] evaluations=%d distinct_nontrivial=%d violations=%d known=%d inconclusive=%d wall=%.1fs" % (
        prop, args.tier, evaluations, distinct, len(printed), len(known_hits), len(inconclusive), wall))
    for s in inconclusive[:10]:
        log("  inconclusive: " + s)
    slow = sorted(steps, key=lambda st: -st.wall)[:4]
    log("  slowest steps: " + ", ".join("%s %.0fs" % (st.name, st.wall) for st in slow))
    if not new_viols and not args.keep_logs:
        shutil.rmtree(logdir, ignore_errors=True)
    return 1 if new_viols else 0


def load_check(prop):
    modpath = os.path.join(ROOT, "checks", prop + ".py")
    spec = importlib.util.spec_from_file_location("check_" + prop, modpath)
    mod = importlib.util.module_from_spec(spec)
    for d in (os.path.join(ROOT, "lib"), os.path.join(ROOT, "checks")):
        if d not in sys.path:
            sys.path.insert(0, d)
    spec.loader.exec_module(mod)
    return mod


def setup(args):
    """Builds everything the quick tier of every check needs (offline, from files on disk only)."""
    tier = "quick"
    props = sorted(f[:-3] for f in os.listdir(os.path.join(ROOT, "checks")) if re.match(r"C\d+\.py$", f))
    try:
        with open(os.path.join(ROOT, "MANIFEST.json")) as f:
            claimed = {c["property_id"] for c in json.load(f).get("checks", [])}
        props = [p for p in props if p in claimed]
    except (OSError, ValueError):
        pass
    if args:
        props = [p for p in props if p in args]
    shared = Ctx("setup", tier, 1)
    t0 = time.time()
    rc = 0
    for p in props:
        try:
            mod = load_check(p)
            ctx = Ctx(p, tier, 1)
            ctx._built = shared._built
            ctx._warmed = shared._warmed
            steps = mod.plan(ctx)
            log("[setup] %s: %d steps planned, build %.1fs" % (p, len(steps), ctx.build_wall))
            if getattr(mod, "SETUP_RUNS_STEPS", False):
                # the check builds inside its step (generated cargo package): run it once to warm the target dir
                ld = os.path.join(BUILD, "logs", "setup-" + p)
                for st in steps:
                    run_step(st, ld)
                    log("[setup] %s: warm-up step %s rc=%s %.0fs" % (p, st.name, st.rc, st.wall))
                shutil.rmtree(ld, ignore_errors=True)
        except HarnessError as e:
            log("[setup] %s: HARNESS-ERROR %s" % (p, e))
            rc = 2
    log("[setup] done in %.1fs" % (time.time() - t0))
    return rc


def replay(prop, path):
    """Rebuilds the binary named in the replay file from the repository working tree and re-runs the witness.
    Exit 1 if the violation shows again (VIOL line, sanitizer report or abnormal death), 0 otherwise."""
    with open(path) as f:
        doc = json.load(f)
    spec = doc.get("run") or {}
    if not spec.get("binary"):
        log("replay file carries no run specification")
        return 2
    ctx = Ctx(prop, doc.get("tier", "quick"), int(doc.get("seed", 1)))
    try:
        st = ctx.step("replay", spec["crate"], spec["binary"], spec["args"], features=spec.get("features", ""),
                      profile=spec.get("profile", "debug"), tool=spec.get("tool", "native"), timeout=3600,
                      miri_flags=spec.get("miri_flags", ""), env=spec.get("env") or {})
    except HarnessError as e:
        log("HARNESS-ERROR: " + str(e))
        return 2
    env = base_env()
    env.update(st.env)
    log("replaying: " + " ".join(st.argv))
    r = subprocess.run(st.argv, cwd=st.cwd, env=env, stdout=subprocess.PIPE, text=True)
    sys.stdout.write(r.stdout)
    bad = r.returncode != 0 or any(l.startswith("VIOL ") for l in r.stdout.splitlines())
    if bad:
        print("VIOLATION property=%s replay=%s" % (doc.get("property", prop), path))
    return 1 if bad else 0


if __name__ == "__main__":
    sys.exit(main())
