#!/usr/bin/env python3
"""Regenerates DESIGN.md section 10 (seeded changes and which checks catch them) from seeded/*/meta.json."""
import json
import os
import re

ROOT = os.path.dirname(os.path.dirname(os.path.abspath(__file__)))
MARK = "## 10. Seeded changes and which checks catch them"


def main():
    sd = os.path.join(ROOT, "seeded")
    rows = []
    for name in sorted(os.listdir(sd)):
        mp = os.path.join(sd, name, "meta.json")
        if not os.path.exists(mp):
            continue
        with open(mp) as f:
            m = json.load(f)
        caught = [c for c, r in sorted(m.get("checks", {}).items()) if r.get("caught")]
        missed = [c for c, r in sorted(m.get("checks", {}).items()) if not r.get("caught")]
        sigs = []
        for c in caught:
            for l in m["checks"][c].get("lines", []):
                mm = re.search(r"signature=(\S+)", l)
                if mm:
                    sigs.append(mm.group(1))
                    break
        rows.append((name, m.get("property"), m.get("change", ""), m.get("needs_to_manifest", ""), caught, missed, sigs, m.get("confirmed")))
    out = [MARK, "",
           "Written by fresh sub-agents that were given only the text of one property and a scratch worktree of `/repo` (nothing from `/verif`;",
           "from round 2 on also one-line descriptions of the edits submitted earlier, so that new ones differ); each compiles, passes the 63 pinned",
           "tests, and comes with a demonstration test that fails with the change and passes without it (confirmed here by `lib/seed.py` in a scratch",
           "worktree before it was kept; `seeded/<id>/{patch.diff, demo.rs, author_notes.md, meta.json}`). Rounds: `-M1/-M2` round 1, `-M3/-M4` round 2",
           "(the patch files of round 2 were lost with a sandbox restore; they were re-created by other sub-agents from the authors' one-line descriptions,",
           "with new demonstrations, and confirmed the same way), `-M5/-M6` round 3, `-M7/-M8` round 4. Several authors independently chose the same edit for different",
           "properties (marked \"same edit as\"); each is kept, with its own demonstration.",
           "`caught by` = quick tier of that check printed `VIOLATION property=<that check's id>` when pointed at the changed tree (`VERIF_REPO`);",
           "`ran silent` = checks that were also tried and stayed silent (a change usually breaks one property in the strict sense, neighbours are listed",
           "to show where attribution ends). Results are those of the last run recorded in `meta.json` (`lib/reseed.py`).", "",
           "| id | written for | change | needs, to manifest | caught by (first signature) | ran silent |", "|---|---|---|---|---|---|"]
    n_ok = 0
    for (name, prop, change, needs, caught, missed, sigs, conf) in rows:
        own = prop in caught
        if caught:
            n_ok += 1
        cs = ", ".join("%s" % c for c in caught) or "**none**"
        if sigs:
            cs += " (`%s`)" % sigs[0][:90]
        out.append("| %s | %s | %s | %s | %s | %s |" % (name, prop, change.replace("|", "/"), needs.replace("|", "/"), cs, ", ".join(missed) or "-"))
    out.append("")
    n_own = sum(1 for (name, prop, change, needs, caught, missed, sigs, conf) in rows if prop in caught)
    out.append("%d of %d seeded changes are caught by at least one check, %d of them (also) by the check of the property they were written for; see section 9.3 for what was changed in the machinery after a miss, and for the one change no check catches." % (n_ok, len(rows), n_own))
    out.append("")
    text = "\n".join(out)
    p = os.path.join(ROOT, "DESIGN.md")
    s = open(p).read()
    if MARK in s:
        s = s[:s.index(MARK)]
    s = s.rstrip("\n") + "\n\n---------------------------------------------------------------------------------------------------\n\n" + text
    open(p, "w").write(s)
    print("rows:", len(rows), "caught:", n_ok)


if __name__ == "__main__":
    main()
