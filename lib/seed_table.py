#!/usr/bin/env python3
"""Regenerates DESIGN.md section 10 (seeded changes and which checks catch them) from seeded/*/meta.json."""
import json
import os
import re

ROOT = os.path.dirname(os.path.dirname(os.path.abspath(__file__)))
MARK = "## 10. Seeded changes and which checks catch them"


def main():
    sd = os.path.join(ROOT, "seeded")
    rows = []
    for name in sorted(os.listdir(sd)):
        mp = os.path.join(sd, name, "meta.json")
        if not os.path.exists(mp):
            continue
        with open(mp) as f:
            m = json.load(f)
        caught = [c for c, r in sorted(m.get("checks", {}).items()) if r.get("caught")]
        missed = [c for c, r in sorted(m.get("checks", {}).items()) if not r.get("caught")]
        sigs = []
        for c in caught:
            for l in m["checks"][c].get("lines", []):
                mm = re.search(r"signature=(\S+)", l)
                if mm:
                    sigs.append(mm.group(1))
                    break
        rows.append((name, m.get("property"), m.get("change", ""), m.get("needs_to_manifest", ""), caught, missed, sigs, m.get("confirmed")))
    out = [MARK, "",
           "Written by fresh sub-agents that were given only the text of one property and a scratch worktree of `/repo` (nothing from `/verif`;",
           "from round 2 on also one-line descriptions of the edits submitted earlier, so that new ones differ); each compiles, passes the 63 pinned",
           "tests, and comes with a demonstration test that fails with the change and passes without it (confirmed here by `lib/seed.py` in a scratch",
           "worktree before it was kept; `seeded/<id>/{patch.diff, demo.rs, author_notes.md, meta.json}`). Rounds: `-M1/-M2` round 1, `-M3/-M4` round 2",
           "(the patch files of round 2 were lost with a sandbox restore; they were re-created by other sub-agents from the authors' one-line descriptions,",
           "with new demonstrations, and confirmed the same way), `-M5/-M6` round 3, `-M7/-M8` round 4. Several authors independently chose the same edit for different",
           "properties (marked \"same edit as\"); each is kept, with its own demonstration.",
           "`caught by` = quick tier of that check printed `VIOLATION property=<that check's id>` when pointed at the changed tree (`VERIF_REPO`);",
           "`ran silent` = checks that were also tried and stayed silent (a change usually breaks one property in the strict sense, neighbours are listed",
           "to show where attribution ends). Results are those of the last run recorded in `meta.json` (`lib/reseed.py`).", "",
           "| id | written for | change | needs, to manifest | caught by (first signature) | ran silent |", "|---|---|---|---|---|---|"]
    n_ok = 0
    for (name, prop, change, needs, caught, missed, sigs, conf) in rows:
        own = prop in caught
        if caught:
            n_ok += 1
        cs = ", ".join("%s" % c for c in caught) or "**none**"
        if sigs:
            cs += " (`%s`)" % sigs[0][:90]
        out.append("| %s | %s | %s | %s | %s | %s |" % (name, prop, change.replace("|", "/"), needs.replace("|", "/"), cs, ", ".join(missed) or "-"))
    out.append("")
    n_own = sum(1 for (name, prop, change, needs, caught, missed, sigs, conf) in rows if prop in caught)
    out.append("%d of %d seeded changes are caught by at least one check, %d of them (also) by the check of the property they were written for; see section 9.3 for what was changed in the machinery after a miss, and for the one change no check catches." % (n_ok, len(rows), n_own))
    out.append("")
    # ---- section 11: behaviour-preserving refactorings ----
    rd = os.path.join(ROOT, "refactors")
    NOTES_R = {
        "RF1-R1": "the three intrusive lists become wrappers over one head-and-tail chain; the buffer of possible roots becomes a FIFO (was LIFO): tracing, finalizer and destructor order inside a garbage set changes",
        "RF1-R2": "tracing counters reset eagerly (creation, leaving root tracing, unwinding) instead of lazily; counting and root tracing each become a single loop; the finalization fold is split into a scan and a run; pass cap 10 -> 6",
        "RF2-R1": "the two packed u16 words become one u32 with a different bit layout, marks re-encoded, finalized flag stored inverted; weak counter re-laid out; CcBox header fields reordered; Cc::drop split into helpers",
        "RF2-R2": "fully unpacked header (one field per piece of information, no reserved counter value), CcBoxHeader struct; header grows from 36 to 40 bytes (box sizes of small payloads change)",
        "RF3-R1": "the four state flags become one bit set with a single restoring guard type; try_unwrap / finalize_again use one is_idle() check; allocated_bytes becomes the difference of two running totals",
        "RF3-R2": "byte threshold stored as a doubling count over an initial value of 128 (was 100); should_collect / adjust become pure functions of a sampled load; CONFIG thread-local merged into the state thread-local",
        "RF4-R1": "weak side record redesigned (holders = Weaks + 1 while the box is attached, flag unpacked, fields reordered, new module); new_cyclic no longer builds a transient Cc; upgrade / strong_count share one live_target()",
        "RF4-R2": "the cleaner's SlotMap replaced by a vector sorted by a never-reused ticket; remaining actions run newest-first at Cleaner drop; UnsafeCell<Option<Cc<..>>> becomes OnceCell",
    }
    if os.path.isdir(rd):
        out.append("---------------------------------------------------------------------------------------------------")
        out.append("")
        out.append("## 11. Behaviour-preserving refactorings and the checks run against them (false-alarm side)")
        out.append("")
        out.append("Written by four further sub-agents that were given the 20 property statements and the contract of the read-only hooks (nothing else from")
        out.append("`/verif`) and asked for *substantial* refactorings of the crate's internals that keep every property and the public behaviour intact")
        out.append("(`refactors/<id>/{patch.diff, author_notes.md, result.txt}`; each passes the pinned tests). The quick tier of the checks most exposed to")
        out.append("the refactored area was run against each refactored tree (`VERIF_REPO`, `lib/refq.sh`): every one must exit 0 without a VIOLATION line.")
        out.append("")
        out.append("| id | refactoring | checks run (quick tier) | alarms |")
        out.append("|---|---|---|---|")
        for name in sorted(os.listdir(rd)):
            rp = os.path.join(rd, name, "result.txt")
            if not os.path.exists(rp):
                continue
            lines = open(rp).read().splitlines()
            ran = [l.split(":")[0] for l in lines if re.match(r"^C\d+: exit", l)]
            bad = [l.split(":")[0] for l in lines if re.match(r"^C\d+: exit", l) and not re.match(r"^C\d+: exit 0 0 violation", l)]
            out.append("| %s | %s | %s | %s |" % (name, NOTES_R.get(name, ""), ", ".join(ran) or "-", ", ".join(bad) or "none"))
        out.append("")
    text = "\n".join(out)
    p = os.path.join(ROOT, "DESIGN.md")
    s = open(p).read()
    if MARK in s:
        s = s[:s.index(MARK)]
    s = s.rstrip("\n") + "\n\n---------------------------------------------------------------------------------------------------\n\n" + text
    open(p, "w").write(s)
    print("rows:", len(rows), "caught:", n_ok)


if __name__ == "__main__":
    main()
