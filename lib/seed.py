#!/usr/bin/env python3
"""Confirms a mutant delivered by a mutation-author sub-agent and runs checks against it.

usage: lib/seed.py <PID> <M1|M2> [--features F] [--checks C01,C07,...] [--name seeded-id] [--tier quick]

The mutant lives in the scratch worktree /tmp/mut/<PID> (DELIVER/<M>.diff + DELIVER/demo_<m>.rs). Steps, all in that
worktree (never in /repo): apply the diff; the pinned tests must still pass; the demonstration must fail; run the given
checks of /verif against the mutated worktree (VERIF_REPO); undo the diff; the demonstration must pass. The result is
stored as /verif/seeded/<name>/{patch.diff, demo.rs, meta.json}.
"""
import argparse
import json
import os
import re
import shutil
import subprocess
import sys
import time

ROOT = os.path.dirname(os.path.dirname(os.path.abspath(__file__)))


def run(cmd, cwd, timeout=1800, env=None):
    e = dict(os.environ)
    e["CARGO_NET_OFFLINE"] = "true"
    if env:
        e.update(env)
    p = subprocess.run(cmd, cwd=cwd, env=e, stdout=subprocess.PIPE, stderr=subprocess.STDOUT, text=True, timeout=timeout, shell=isinstance(cmd, str))
    return p.returncode, p.stdout


def main():
    ap = argparse.ArgumentParser()
    ap.add_argument("pid")
    ap.add_argument("mut")
    ap.add_argument("--features", default="")
    ap.add_argument("--checks", default="")
    ap.add_argument("--name", default=None)
    ap.add_argument("--tier", default="quick")
    ap.add_argument("--wt", default=None)
    ap.add_argument("--skip-confirm", action="store_true")
    ap.add_argument("--release-demo", action="store_true")
    ap.add_argument("--no-default", action="store_true", help="demo (and pinned tests) with --no-default-features")
    a = ap.parse_args()
    wt = a.wt or "/tmp/mut/%s" % a.pid
    m = a.mut.upper()
    diff = os.path.join(wt, "DELIVER", "%s.diff" % m)
    demo = os.path.join(wt, "DELIVER", "demo_%s.rs" % m.lower().replace("-", "_"))
    name = a.name or "%s-%s" % (a.pid, m)
    feat = ["--features", a.features] if a.features else []
    if a.no_default:
        feat = ["--no-default-features"] + feat
    meta = {"id": name, "property": a.pid, "mutant": m, "features_for_demo": a.features, "ran": [], "at": time.strftime("%Y-%m-%dT%H:%M:%SZ", time.gmtime())}
    run("git checkout -- . && rm -f tests/demo_*.rs", wt)
    rc, out = run(["git", "apply", "--whitespace=nowarn", diff], wt)
    if rc != 0:
        print("patch does not apply:", out)
        return 2
    shutil.copy(demo, os.path.join(wt, "tests", os.path.basename(demo)))
    tname = os.path.basename(demo)[:-3]
    try:
        if not a.skip_confirm:
            rc, out = run(["cargo", "test", "--offline"] + ([] if a.no_default else feat) + ["--lib", "--test", "cc", "--test", "auto_collect"], wt)
            res = re.findall(r"test result: (\w+)\. (\d+) passed; (\d+) failed", out)
            meta["pinned_tests_with_mutant"] = res
            ok_pinned = rc == 0 and all(r[0] == "ok" for r in res) and len(res) >= 3
            print("pinned tests with mutant:", res, "OK" if ok_pinned else "FAIL")
            rel = ["--release"] if a.release_demo else []
            rc, out = run(["cargo", "test", "--offline"] + feat + rel + ["--test", tname], wt)
            demo_fails = rc != 0
            meta["demo_with_mutant"] = "fails" if demo_fails else "passes"
            tail = [l for l in out.splitlines() if "panicked" in l or "test result" in l or "assert" in l][:6]
            print("demo with mutant:", "FAILS (expected)" if demo_fails else "PASSES (unexpected)", tail[:3])
            meta["demo_failure_excerpt"] = tail
        else:
            ok_pinned = True
            demo_fails = True
        # ---- the checks of /verif against the mutated worktree ----
        os.remove(os.path.join(wt, "tests", os.path.basename(demo)))
        results = {}
        for c in [x for x in a.checks.split(",") if x]:
            t0 = time.time()
            rc, out = run([os.path.join(ROOT, "check"), c, "--tier", a.tier], ROOT, timeout=7200, env={"VERIF_REPO": wt})
            lines = [l for l in out.splitlines() if l.startswith("VIOLATION") or l.startswith("KNOWN") or l.startswith("  oracle=") or "inconclusive" in l or l.startswith("[" + c)]
            caught = any(l.startswith("VIOLATION property=%s " % c) for l in out.splitlines())
            results[c] = {"exit": rc, "caught": caught, "wall_s": round(time.time() - t0, 1), "lines": lines[:12]}
            print("check %s: exit %d %s (%.0fs)" % (c, rc, "CAUGHT" if caught else "not caught", time.time() - t0))
            for l in lines[:6]:
                print("    " + l[:300])
        meta["checks"] = results
        meta["ran"] = ["git apply DELIVER/%s.diff" % m, "cargo test --offline %s --lib --test cc --test auto_collect" % " ".join(feat),
                       "cargo test --offline %s --test %s" % (" ".join(feat), tname)] + ["VERIF_REPO=%s ./check %s --tier %s" % (wt, c, a.tier) for c in results]
    finally:
        run("git checkout -- .", wt)
    if not a.skip_confirm:
        shutil.copy(demo, os.path.join(wt, "tests", os.path.basename(demo)))
        rel = ["--release"] if a.release_demo else []
        rc, out = run(["cargo", "test", "--offline"] + feat + rel + ["--test", tname], wt)
        os.remove(os.path.join(wt, "tests", os.path.basename(demo)))
        meta["demo_without_mutant"] = "passes" if rc == 0 else "fails"
        print("demo without mutant:", "passes (expected)" if rc == 0 else "FAILS (unexpected)")
        meta["confirmed"] = bool(ok_pinned and demo_fails and rc == 0)
    # ---- store ----
    dst = os.path.join(os.environ.get("SEED_STORE", os.path.join(ROOT, "seeded")), name)
    os.makedirs(dst, exist_ok=True)
    shutil.copy(diff, os.path.join(dst, "patch.diff"))
    shutil.copy(demo, os.path.join(dst, "demo.rs"))
    readme = os.path.join(wt, "DELIVER", "README.md")
    if os.path.exists(readme):
        shutil.copy(readme, os.path.join(dst, "author_notes.md"))
    old = {}
    mp = os.path.join(dst, "meta.json")
    if os.path.exists(mp):
        with open(mp) as f:
            old = json.load(f)
    if a.skip_confirm:
        for k in ("pinned_tests_with_mutant", "demo_with_mutant", "demo_without_mutant", "confirmed", "demo_failure_excerpt"):
            if k in old:
                meta[k] = old[k]
    prev = old.get("checks", {})
    prev.update(meta.get("checks", {}))
    meta["checks"] = prev
    meta.setdefault("needs_to_manifest", old.get("needs_to_manifest", "see author_notes.md"))
    with open(mp, "w") as f:
        json.dump(meta, f, indent=1)
    print("stored", dst, "confirmed =", meta.get("confirmed"))
    return 0


if __name__ == "__main__":
    sys.exit(main())
