#!/bin/sh
# Informational (not part of any verdict): line / region coverage of /repo/src reached by the ccmon workloads.
# usage: lib/coverage.sh   (needs the nightly toolchain's llvm-tools; ~4 min; output: table on stdout)
set -e
SYS=$(rustc +nightly --print sysroot); BIN=$SYS/lib/rustlib/x86_64-unknown-linux-gnu/bin
D=$(mktemp -d /var/tmp/rcc-verif-cov.XXXXXX); trap 'rm -rf "$D"' EXIT
T=/verif/.build/cov-harness; F=finalization,auto-collect,weak-ptrs,cleaners
( cd /verif/harness && RUSTFLAGS="-Cinstrument-coverage" cargo +nightly build --offline --target-dir $T --no-default-features --features $F >/dev/null 2>&1 )
B=$T/debug; i=0
for m in C01 C02 C03 C05 C06 C08 C09 C10 C11 C12 C13 C14; do i=$((i+1)); LLVM_PROFILE_FILE=$D/r$i.profraw $B/ccmon --mode $m --gen random --seed 7 --count 1500 --props $m >/dev/null 2>&1 & done; wait
LLVM_PROFILE_FILE=$D/f1.profraw $B/ccmon --mode C07 --gen random --seed 7 --count 150 --faults single --props C07 >/dev/null 2>&1 &
LLVM_PROFILE_FILE=$D/f2.profraw $B/ccmon --mode C14 --gen random --seed 7 --count 300 --faults single --props C14 >/dev/null 2>&1 &
LLVM_PROFILE_FILE=$D/d1.profraw $B/ccmon --mode C07 --gen directed --faults single --props C07 >/dev/null 2>&1 &
LLVM_PROFILE_FILE=$D/e1.profraw $B/ccmon --mode C01 --gen exhaust --depth 5 --props C01 >/dev/null 2>&1 &
LLVM_PROFILE_FILE=$D/p1.profraw $B/ccmon --mode C15 --gen policy --rounds 30 --props C15 --alloc track >/dev/null 2>&1 &
LLVM_PROFILE_FILE=$D/t1.profraw $B/ccmon --mode C19 --gen threads --threads 4 --rounds 3 --count 20 --props C19 --alloc track >/dev/null 2>&1 &
LLVM_PROFILE_FILE=$D/l1.profraw $B/layouts >/dev/null 2>&1 &
LLVM_PROFILE_FILE=$D/td.profraw $B/teardown --no-children >/dev/null 2>&1 &
wait
$BIN/llvm-profdata merge -sparse $D/*.profraw -o $D/all.profdata
$BIN/llvm-cov report --instr-profile $D/all.profdata $B/ccmon -object $B/layouts -object $B/teardown --sources /repo/src
