#!/bin/sh
# usage: dbg.sh MODE COUNT [extra args]  -- builds (full features, debug) and summarises oracle hits over random histories
F=${FEATURES-finalization,auto-collect,weak-ptrs,cleaners}
cd /verif/harness && cargo build --offline --target-dir /verif/.build/native-harness --no-default-features --features "$F" 2>&1 | grep -E "^error" -A 15 | head -60
B=/verif/.build/native-harness/debug/ccmon; ALL=C01,C02,C03,C04,C05,C06,C07,C08,C09,C10,C11,C12,C13,C14,C15,C19,C20
M=$1; N=$2; shift; shift
D=$(mktemp -d /var/tmp/dbg.XXXXXX)
for s in 0 1 2 3 4 5 6 7 8 9 10 11 12 13 14 15; do $B --mode $M --gen ${GEN-random} --seed ${SEED-1} --count $N --props ${PROPS-$ALL} --shard $s --nshards 16 "$@" >$D/$s.out 2>$D/$s.err & done
wait
cat $D/*.out | python3 /verif/lib/sigs.py $V
grep -l . $D/*.err 2>/dev/null | head -3 | while read f; do echo "stderr $f:"; tail -5 $f; done
rm -rf $D
