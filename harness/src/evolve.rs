//! Novelty-guided mutational generator (`--gen evolve`): a workload generator, not an oracle. It keeps a corpus of
//! histories that exhibited a behaviour feature not seen before (nesting of callbacks x operation x outcome, hidden-state
//! classes of objects and edges at quiescent points, collection / unwinding events: `World::feature`), and derives new
//! histories from corpus members by small edits (insert / delete / duplicate / swap / replace an operation, splice two
//! histories, re-roll a finalizer script, move a collection), optionally with one injected panic. Every execution runs
//! under the same oracles as any other history; the features only decide what is kept for further mutation.
//!
//! Deterministic for a given (mode, seed, shard, nshards, count, faults, build): a witness is replayed by re-running the
//! shard up to the witness (`--upto`).
use crate::gen::{Gen, Profile};
use crate::ops::*;
use crate::run::{run_history, Shard};
use crate::world::*;
use std::collections::HashSet;
use vcommon::Rng;

struct Entry {
    h: History,
    cb: [u64; N_CB],
}

const MAX_LEN: usize = 70;
const CORPUS_CAP: usize = 6000;

fn reroll_spec(g: &mut Gen, a: &mut Act) -> bool {
    match a {
        Act::New { spec, .. } | Act::NewCyclic { spec, .. } => {
            **spec = g.spec(0);
            true
        }
        Act::Register { action, .. } => {
            **action = g.action_spec();
            true
        }
        _ => false,
    }
}

/// One edit of `ops`. `other` is another corpus member (for splicing).
fn mutate_once(g: &mut Gen, ops: &mut Vec<Act>, other: &[Act]) {
    let n = ops.len();
    match g.rng.idx(12) {
        0 | 1 => {
            // insert freshly generated operation(s)
            let mut fresh = Vec::new();
            g.top_op(&mut fresh);
            let at = g.rng.idx(n + 1);
            for (i, a) in fresh.into_iter().enumerate() {
                ops.insert(at + i, a);
            }
        }
        2 => {
            if n > 1 {
                ops.remove(g.rng.idx(n));
            }
        }
        3 => {
            if n > 0 {
                let a = ops[g.rng.idx(n)].clone();
                ops.insert(g.rng.idx(n + 1), a);
            }
        }
        4 => {
            if n > 1 {
                let i = g.rng.idx(n);
                let j = g.rng.idx(n);
                ops.swap(i, j);
            }
        }
        5 => {
            if n > 0 {
                let mut fresh = Vec::new();
                g.top_op(&mut fresh);
                let at = g.rng.idx(n);
                ops.remove(at);
                for (i, a) in fresh.into_iter().enumerate() {
                    ops.insert(at + i, a);
                }
            }
        }
        6 => {
            // splice: prefix of this one, suffix of another corpus member
            if n > 0 && !other.is_empty() {
                let i = g.rng.idx(n + 1);
                let j = g.rng.idx(other.len());
                ops.truncate(i);
                ops.extend(other[j..].iter().cloned());
            }
        }
        7 => {
            let a = match g.rng.idx(5) {
                0 | 1 => Act::Collect,
                2 => Act::CollectQuiet,
                3 => Act::Drop { dst: Dst::R(g.rng.idx(NR) as u8) },
                _ => Act::Drop { dst: Dst::G(g.rng.idx(NG) as u8) },
            };
            ops.insert(g.rng.idx(n + 1), a);
        }
        8 | 9 => {
            // re-roll the callback scripts of a creation / registration
            let idxs: Vec<usize> = ops.iter().enumerate().filter(|(_, a)| matches!(a, Act::New { .. } | Act::NewCyclic { .. } | Act::Register { .. })).map(|(i, _)| i).collect();
            if !idxs.is_empty() {
                let i = *g.rng.pick(&idxs);
                let mut a = ops[i].clone();
                if reroll_spec(g, &mut a) {
                    ops[i] = a;
                }
            }
        }
        10 => {
            // add one step to an existing finalizer script (or give an object a finalizer)
            let idxs: Vec<usize> = ops.iter().enumerate().filter(|(_, a)| matches!(a, Act::New { .. } | Act::NewCyclic { .. })).map(|(i, _)| i).collect();
            if !idxs.is_empty() {
                let i = *g.rng.pick(&idxs);
                let extra = g.fin_act(0);
                if let Act::New { spec, .. } | Act::NewCyclic { spec, .. } = &mut ops[i] {
                    if spec.fin.len() < 4 {
                        let at = g.rng.idx(spec.fin.len() + 1);
                        spec.fin.insert(at, extra);
                    }
                }
            }
        }
        _ => {
            // move an operation
            if n > 1 {
                let a = ops.remove(g.rng.idx(n));
                ops.insert(g.rng.idx(n), a);
            }
        }
    }
    if ops.len() > MAX_LEN {
        // keep the tail: what leads to interesting states is usually the recent past
        let cut = ops.len() - MAX_LEN;
        ops.drain(0..cut);
    }
}

pub fn run(sh: &mut Shard, mode: &str, seed: u64, shard: u64, nshards: u64, count: u64, faults: &str, upto: Option<u64>, verbose: bool) {
    let wd = w();
    let mut p = Profile::for_mode(mode);
    p.min_ops = 6;
    p.max_ops = 30;
    if crate::run::NO_BULK.with(|b| b.get()) {
        p.w_bulk = 0;
    }
    let mut rng = Rng::derive(seed ^ 0xE701_7E, shard);
    let mut corpus: Vec<Entry> = Vec::new();
    let mut seen: HashSet<u64> = HashSet::new();
    let n_directed = crate::directed::count() as u64;
    let n_random_seeds = 48u64;
    let mut kept = 0u64;
    let mut faulted = 0u64;
    let mut total_mut = 0u64;
    for i in 0..count {
        if sh.stop {
            sh.rep.inconclusive("shard stopped early after a violation that may have corrupted memory");
            break;
        }
        if let Some(u) = upto {
            if i > u {
                break;
            }
        }
        // ---- choose the history ----
        let mut h;
        let mut fault: Option<Fault> = None;
        if i < n_directed {
            // every shard starts from the whole directed corpus, rotated so that shards differ in what they see first
            let Some(d) = crate::directed::get(((i + shard * 7) % n_directed) as usize) else { continue };
            h = d;
        } else if i < n_directed + n_random_seeds || corpus.is_empty() {
            let mut g = Gen { rng: &mut rng, p: &p };
            h = g.history();
        } else {
            let pi = if rng.chance(1, 2) { corpus.len() - 1 - rng.idx(corpus.len().min(64)) } else { rng.idx(corpus.len()) };
            let oi = rng.idx(corpus.len());
            let mut ops = corpus[pi].h.ops.clone();
            let other: Vec<Act> = corpus[oi].h.ops.clone();
            let cb = corpus[pi].cb;
            let mut g = Gen { rng: &mut rng, p: &p };
            let mut k = 1;
            while k < 4 && g.rng.chance(1, 2) {
                k += 1;
            }
            for _ in 0..k {
                mutate_once(&mut g, &mut ops, &other);
                total_mut += 1;
            }
            h = History { ops, label: String::new() };
            if faults != "none" && rng.chance(1, 4) {
                let kinds: Vec<usize> = (0..N_CB).filter(|k| cb[*k] > 0).collect();
                if !kinds.is_empty() {
                    let kind = *rng.pick(&kinds);
                    // the mutation may have moved the invocation counts: allow a little beyond what the parent showed
                    fault = Some(Fault { kind: kind as u8, k: 1 + rng.below(cb[kind] + 2) });
                }
            }
        }
        h.label = format!("evolve:{}:{}:{}:{}", mode, seed, shard, i);
        // ---- run it under every oracle ----
        let target = upto.map_or(true, |u| u == i);
        sh.cfg.verbose = verbose && target;
        wd.feats.borrow_mut().clear();
        wd.feat_on.set(true);
        let out = run_history(&h, &sh.cfg, fault, None);
        wd.feat_on.set(false);
        sh.rep.evaluations += 1;
        sh.rep.count("histories", 1);
        if fault.is_some() {
            faulted += 1;
            if out.fired >= 1 {
                sh.rep.count("evolve_faults_fired", 1);
                sh.rep.set_add("fault_kinds_hit", Cb::from_u8(fault.unwrap().kind).map_or("?", |c| c.name()));
            }
        }
        if sh.cfg.verbose {
            for l in wd.trace_log.borrow().iter() {
                eprintln!("{}", l);
            }
            for v in &out.viols {
                eprintln!("ORACLE {} {} {} :: {}", v.prop, v.oracle, v.sig, v.detail);
            }
        }
        let idx_args = vec!["--count".to_string(), count.to_string(), "--shard".to_string(), shard.to_string(), "--nshards".to_string(), nshards.to_string(), "--faults".to_string(), faults.to_string(), "--upto".to_string(), i.to_string()];
        sh.report(&h, &out, &idx_args, fault, None);
        if out.nontrivial {
            sh.rep.nontrivial(h.hash() ^ fault.map_or(0, |f| (f.kind as u64) << 56 ^ f.k << 40));
            if sh.rep.samples.len() < 2 && i >= n_directed + n_random_seeds {
                let ops: Vec<vcommon::Json> = h.render().into_iter().take(60).map(vcommon::Json::from).collect();
                sh.rep.sample(vcommon::Json::obj().set("label", h.label.as_str()).set("ops", vcommon::Json::Arr(ops)).set("n_ops", h.ops.len()).set("fault", match fault {
                    Some(f) => vcommon::Json::from(format!("{}#{}", Cb::from_u8(f.kind).map_or("?", |c| c.name()), f.k)),
                    None => vcommon::Json::Null,
                }));
            }
        }
        // ---- novelty ----
        let mut new = 0u32;
        {
            let f = wd.feats.borrow();
            for x in f.iter() {
                if seen.insert(*x) {
                    new += 1;
                }
            }
        }
        if new > 0 && out.viols.is_empty() && out.harness_errors.is_empty() && fault.is_none() {
            if corpus.len() >= CORPUS_CAP {
                let victim = rng.idx(corpus.len() / 2);
                corpus.swap_remove(victim);
            }
            corpus.push(Entry { h, cb: out.cb_counts });
            kept += 1;
        }
    }
    sh.rep.count("evolve_corpus_kept", kept);
    sh.rep.count("evolve_faulted_runs", faulted);
    sh.rep.count("evolve_mutations", total_mut);
    sh.rep.max("evolve_distinct_features", seen.len() as u64);
}
