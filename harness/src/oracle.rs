//! The oracles (DESIGN.md sections 3 and 4). Stated at the API boundary: results of public functions, user
//! callbacks, allocator events. Hooks are used for the buffer walk (C11), the byte threshold (C15), and to tell
//! object boxes / side records from other blocks. Oracles never clone / drop / mark_alive / downgrade / upgrade:
//! they only call strong_count, weak_count, already_finalized, the state::* queries and the read-only hooks.
use crate::model::*;
use crate::node::*;
use crate::ops::*;
use crate::world::*;
use rust_cc::verif::{self, ObsKind};
use rust_cc::*;
#[cfg(feature = "weak-ptrs")]
use rust_cc::weak::Weak;
use std::collections::HashSet;
use vcommon::alloc as valloc;

#[derive(Clone, Copy, Debug, PartialEq, Eq)]
pub enum Leave {
    Clone = 0,
    MarkAlive = 1,
    Downgrade = 2,
    Upgrade = 3,
    Unwrap = 4,
    Collection = 5,
}

// ---------------------------------------------------------------------------------------------------------------
// allocation observer (hook) -> model of boxes and side records

trait CopiedSize {
    fn copied_size(self) -> Option<usize>;
}
impl CopiedSize for Option<&BoxRec> {
    fn copied_size(self) -> Option<usize> {
        self.map(|r| r.size)
    }
}

pub fn install_observer() {
    verif::set_box_observer(Some(observer));
}

fn observer(kind: ObsKind, addr: usize, size: usize, align: usize) {
    let Some(wd) = try_w() else { return };
    let _tag = valloc::TagGuard::new(valloc::TAG_HARNESS);
    let Ok(mut m) = wd.m.try_borrow_mut() else {
        wd.harness_error(format!("observer {:?}: model already borrowed (stack {})", kind, wd.stack_sig()));
        return;
    };
    let tracking = wd.mode.get().alloc_tracking && valloc::mode() != valloc::MODE_OFF;
    match kind {
        ObsKind::BoxAlloc | ObsKind::OtherAlloc => {
            if tracking {
                let (is_alloc, p, s, a, _) = valloc::last_event();
                if !(is_alloc && p == addr && s == size && a == align) {
                    wd.err("C11", "observer_without_allocation", format!("observer_{:?}_without_matching_alloc", kind), format!("the crate reported {:?} of {} bytes (align {}) at {:#x} but the allocator's last event on this thread is (alloc={}, {:#x}, {}, {})", kind, size, align, addr, is_alloc, p, s, a));
                }
            }
            if kind == ObsKind::BoxAlloc {
                let owner = wd.pending_box.try_borrow_mut().ok().and_then(|mut p| p.pop()).unwrap_or(BoxOwner::Unknown);
                if m.boxes.insert(addr, BoxRec { size, align, owner }).is_some() {
                    wd.err("C03", "box_address_reused_while_live", "box_alloc_on_live_box".into(), format!("a managed box was allocated at {:#x} while the previous box at that address was never released", addr));
                }
                m.box_bytes += size;
                wd.box_seq.set(wd.box_seq.get() + 1);
                wd.last_box_alloc.set((addr, size));
                match owner {
                    BoxOwner::Node(id) => {
                        if let Some(o) = m.obj_mut(id) {
                            o.box_addr = addr;
                            o.box_size = size;
                            o.box_live = true;
                        }
                    }
                    BoxOwner::Map(id) => {
                        if let Some(o) = m.obj_mut(id) {
                            if o.map_live {
                                // a second map for the same cleaner (register re-entered while the first call was
                                // allocating): one of the two is redundant
                                o.spare_maps.push(addr);
                            } else {
                                o.map_addr = addr;
                                o.map_live = true;
                                o.map_buffered = Tri::Out;
                            }
                        }
                    }
                    BoxOwner::Unknown => {}
                }
            } else {
                let owner = wd.pending_side.try_borrow_mut().ok().and_then(|mut p| p.pop()).unwrap_or(BoxOwner::Unknown);
                m.sides.insert(addr, SideRec { size, owner });
                bump(&wd.stats.side_records);
                match owner {
                    BoxOwner::Node(id) => {
                        if let Some(o) = m.obj_mut(id) {
                            o.side_addr = addr;
                        }
                    }
                    BoxOwner::Map(id) => {
                        if let Some(o) = m.obj_mut(id) {
                            o.map_side_addr = addr;
                        }
                    }
                    BoxOwner::Unknown => {}
                }
            }
        }
        ObsKind::BoxDealloc => {
            let Some(rec) = m.boxes.remove(&addr) else {
                // a box leaked by an earlier history of this thread is released now
                if let Ok(mut l) = wd.leaked_addrs.try_borrow_mut() {
                    if let Some(sz) = l.remove(&addr) {
                        wd.base_bytes.set(wd.base_bytes.get().saturating_sub(sz));
                        return;
                    }
                }
                wd.err("C03", "box_freed_twice_or_unknown", "box_dealloc_unknown".into(), format!("the crate released a managed box at {:#x} ({} bytes) that is not allocated (double free?)", addr, size));
                return;
            };
            if rec.size != size || rec.align != align {
                wd.err("C03", "box_layout_mismatch", "box_dealloc_layout".into(), format!("box at {:#x} allocated with (size {}, align {}) released with (size {}, align {})", addr, rec.size, rec.align, size, align));
            }
            m.box_bytes -= rec.size;
            if let Ok(mut f) = wd.freed_boxes.try_borrow_mut() {
                // remember which allocation this is (the allocator's sequence number of the block): the address may be
                // handed out again to another block before the next quiescent point
                let seq = if tracking { valloc::lookup(addr).map_or(0, |b| b.seq) } else { 0 };
                f.push((addr, seq));
            }
            match rec.owner {
                BoxOwner::Node(id) => {
                    let reach = m.reach();
                    let in_coll = wd.in_collection.get();
                    let wh = m.weak_holders(id);
                    if let Some(o) = m.obj_mut(id) {
                        match o.val {
                            Val::Dropped | Val::Unwrapped | Val::Uninit | Val::Vanished => {}
                            Val::Alive | Val::Unboxed if wd.unwrapping.get() == Some(id) => {}
                            Val::Alive | Val::Unboxed => {
                                if reach.contains(&id) {
                                    wd.err("C01", "box_freed_reachable", "box_freed_while_reachable".into(), format!("the box of reachable object #{} was released while its value is alive (stack {})", id, wd.stack_sig()));
                                } else {
                                    wd.err("C03", "box_freed_value_alive", "box_freed_before_drop".into(), format!("the box of #{} was released although its value was never dropped nor moved out (stack {})", id, wd.stack_sig()));
                                }
                            }
                        }
                        o.box_live = false;
                        o.glue_pending = false;
                        o.buffered = Tri::Out;
                        if o.side_addr != 0 && wh.1 > 0 {
                            bump(&wd.stats.side_outlived_box);
                        }
                        if in_coll {
                            bump(&wd.stats.reclaimed_by_collector);
                        } else {
                            bump(&wd.stats.reclaimed_by_rc);
                        }
                    }
                }
                BoxOwner::Map(id) => {
                    if let Some(o) = m.obj_mut(id) {
                        if let Some(p) = o.spare_maps.iter().position(|a| *a == addr) {
                            o.spare_maps.remove(p);
                        } else {
                            o.map_live = false;
                            o.map_buffered = Tri::Out;
                            if let Some(a) = o.spare_maps.pop() {
                                // the redundant map was the one that went away: the other one is the cleaner's map
                                o.map_addr = a;
                                o.map_live = true;
                                o.map_buffered = Tri::Unk;
                            }
                        }
                    }
                }
                BoxOwner::Unknown => {}
            }
        }
        ObsKind::OtherDealloc => {
            if !m.sides.contains_key(&addr) {
                if let Some(b) = m.boxes.get(&addr).copied_size() {
                    // a managed box released through the path for other blocks: allocated_bytes() keeps counting it
                    wd.err("C11", "box_released_unaccounted", "box_freed_without_accounting".into(), format!("the managed box at {:#x} ({} bytes) was released without being subtracted from allocated_bytes() (stack {})", addr, b, wd.stack_sig()));
                    return;
                }
            }
            let Some(rec) = m.sides.remove(&addr) else {
                if let Ok(mut l) = wd.leaked_addrs.try_borrow_mut() {
                    if l.remove(&addr).is_some() {
                        return;
                    }
                }
                wd.err("C09", "side_record_freed_twice_or_unknown", "side_dealloc_unknown".into(), format!("the crate released a weak side record at {:#x} that is not allocated (double free?)", addr));
                return;
            };
            if rec.size != size {
                wd.err("C03", "side_layout_mismatch", "side_dealloc_layout".into(), format!("side record at {:#x} allocated with size {} released with size {}", addr, rec.size, size));
            }
            if let BoxOwner::Node(id) = rec.owner {
                let mut wh = m.weak_holders(id);
                // the Weak handed to a new_cyclic closure is dropped by new_cyclic itself (on return or while
                // unwinding): it may already be gone
                let cyc = m.cyc.iter().filter(|c| **c == id).count() as u32;
                wh.0 = wh.0.saturating_sub(cyc);
                let val = m.obj(id).map(|o| o.val);
                if wh.0 > 0 {
                    wd.err("C09", "side_record_freed_with_weaks", "side_freed_while_weak_exists".into(), format!("the side record of #{} was released while {} Weak pointers to it exist (stack {})", id, wh.0, wd.stack_sig()));
                }
                if matches!(val, Some(Val::Alive)) && !wd.is_degraded() && wd.unwrapping.get() != Some(id) {
                    wd.err("C09", "side_record_freed_value_alive", "side_freed_while_value_alive".into(), format!("the side record of #{} was released while its value is alive (stack {})", id, wd.stack_sig()));
                }
                if let Some(o) = m.obj_mut(id) {
                    o.side_addr = 0;
                }
            }
            if let BoxOwner::Map(id) = rec.owner {
                if let Some(o) = m.obj_mut(id) {
                    o.map_side_addr = 0;
                }
            }
        }
    }
}

// ---------------------------------------------------------------------------------------------------------------
// bookkeeping called by the interpreter

/// A handle to `id` was acquired through an operation that un-buffers the object.
pub fn acquired(wd: &World, id: u32, how: Leave) {
    bump(&wd.stats.leave_ops[how as usize]);
    let mut m = wd.m.borrow_mut();
    if let Some(o) = m.obj_mut(id) {
        o.buffered = if wd.in_collection.get() { Tri::Unk } else { Tri::Out };
        wd.tlog(|| format!("  [model] #{} leaves buffer by {:?} -> {:?}", id, how, o.buffered));
    }
}

/// The model no longer counts some handle to `id` (it is about to be released for real).
pub fn lost_holder(wd: &World, id: u32) {
    let mut m = wd.m.borrow_mut();
    let (min, max) = m.holders(id);
    let in_coll = wd.in_collection.get();
    if let Some(o) = m.obj_mut(id) {
        if o.val != Val::Alive {
            return;
        }
        if max == 0 {
            if !in_coll {
                o.zero_outside = true;
                bump(&wd.stats.cascade_checks);
            }
        } else if min >= 1 {
            // one of several handles goes away: the object is buffered (unless a collection holds it in its lists)
            o.buffered = if in_coll { Tri::Unk } else { Tri::In };
        } else {
            o.buffered = Tri::Unk;
        }
        wd.tlog(|| format!("  [model] handle to #{} released (holders {}..{}, in_collection {}) -> {:?}", id, min, max, in_coll, o.buffered));
    }
}

/// The real release of a handle to `id` has returned. `was_last`: no other handle existed when it started.
pub fn after_release(wd: &World, id: u32, was_last: bool) {
    let mut m = wd.m.borrow_mut();
    let (min, _max) = m.holders(id);
    let in_coll = wd.in_collection.get();
    if let Some(o) = m.obj_mut(id) {
        if o.val == Val::Alive && was_last && min >= 1 {
            // the last handle went away but a finalizer resurrected the object: it ends up buffered
            o.zero_outside = false;
            o.buffered = if in_coll { Tri::Unk } else { Tri::In };
        }
    }
}

/// Is the handle about to be released the only one (model view)?
pub fn is_last(wd: &World, id: u32) -> bool {
    wd.m.borrow().holders(id).1 == 0
}

pub fn resurrected(wd: &World, id: u32) {
    bump(&wd.stats.resurrections);
    wd.had_resurrection.set(true);
    wd.coll_resurrected.set(true);
    if let Some(o) = wd.m.borrow_mut().obj_mut(id) {
        o.resurrected = true;
    }
}

fn api_below_top_cb(wd: &World) -> Option<Frame> {
    let s = wd.stack.borrow();
    // the top frame is the callback itself: find the nearest API frame under it
    s.iter().rev().skip(1).find(|f| !matches!(f, Frame::Cb(_, _))).copied()
}

/// Every callback shim calls this first (after pushing its frame).
pub fn on_callback_event(wd: &World, cb: Cb, _id: u32) {
    wd.cb_total.set(wd.cb_total.get() + 1);
    // a callback directly under Cc::new / new_cyclic / register can only come from an automatic collection
    if !wd.in_collection.get() {
        if let Some(Frame::ApiNew) = api_below_top_cb(wd) {
            if !matches!(cb, Cb::Closure) {
                collection_starting(wd, false);
            }
        }
    }
    if wd.in_collection.get() {
        // the running collection has started, so it is already part of the count (only judged for collections the
        // interpreter requested itself; automatic ones are judged when the creating call returns)
        if wd.coll_explicit.get() && wd.new_in_flight.get() == 0 && wd.fault_fired.get() == 0 {
            if let Ok(e) = state::executions_count() {
                if e as u64 != wd.expected_exec.get() {
                    wd.coll_explicit.set(false);
                    wd.err("C11", "executions_count", format!("executions_count_inside_collection_off_by_{}", e as i64 - wd.expected_exec.get() as i64), format!("inside a callback of a running collection state::executions_count() = {} but {} collections have been started (the running one included)", e, wd.expected_exec.get()));
                }
            }
        }
        wd.coll_cb_events.set(wd.coll_cb_events.get() + 1);
        if wd.coll_cb_events.get() > wd.coll_cb_bound.get() {
            wd.coll_cb_bound.set(u64::MAX);
            wd.err("C06", "collection_does_not_terminate", "collection_event_bound_exceeded".into(), format!("one collection produced more than {} callback events", wd.coll_cb_events.get() - 1));
        }
    }
}

pub fn collection_starting(wd: &World, explicit: bool) {
    wd.feature(FT_COLL, 1, explicit as u64);
    wd.in_collection.set(true);
    wd.coll_drop_phase.set(false);
    wd.coll_cb_events.set(0);
    wd.coll_finalizers.set(0);
    wd.coll_resurrected.set(false);
    wd.coll_mutated.set(false);
    wd.coll_explicit.set(explicit);
    if explicit {
        wd.expected_exec.set(wd.expected_exec.get() + 1);
    } else {
        bump(&wd.stats.auto_collections);
    }
    bump(&wd.stats.collections);
    let m = wd.m.borrow();
    let n = m.objs.iter().filter(|o| o.val == Val::Alive).count() as u64;
    let e: u64 = m.objs.iter().filter(|o| o.val == Val::Alive).map(|o| o.t.iter().chain(o.h.iter()).flatten().count() as u64 + o.actions.len() as u64).sum();
    wd.coll_start_alive.set(n);
    // logical termination bound, generous; objects created during the collection enlarge it (see on_new_in_collection)
    wd.coll_cb_bound.set(64 * (n + e + 8) * (n + e + 8));
}

pub fn collection_finished(wd: &World, normal: bool) {
    wd.feature(FT_COLL, 2, normal as u64 | (wd.coll_finalizers.get().min(3)) << 1 | (wd.coll_resurrected.get() as u64) << 3);
    bump_max(&wd.stats.finalizers_in_one_collection_max, wd.coll_finalizers.get());
    let scramble = !normal || wd.coll_mutated.get();
    wd.tlog(|| format!("  [model] collection finished (normal {}, scramble {})", normal, scramble));
    let mut m = wd.m.borrow_mut();
    for o in m.objs.iter_mut() {
        if o.val == Val::Alive && o.box_live {
            if scramble {
                o.buffered = Tri::Unk;
            } else if o.buffered == Tri::In {
                // processed by the collection
                o.buffered = Tri::Out;
                bump(&wd.stats.leave_ops[Leave::Collection as usize]);
            }
        }
        if o.map_live {
            if scramble {
                o.map_buffered = Tri::Unk;
            } else if o.map_buffered == Tri::In {
                o.map_buffered = Tri::Out;
            }
        }
    }
    drop(m);
    wd.coll_explicit.set(false);
    wd.coll_drop_phase.set(false);
    wd.coll_cb_bound.set(u64::MAX);
    #[cfg(feature = "auto-collect")]
    if normal {
        // the threshold was adjusted at the end of this collection: judged by the caller (C15), which knows the
        // size of a box allocated after it
    }
}

// ---------------------------------------------------------------------------------------------------------------
// callbacks

fn first_api_is_collection(wd: &World) -> bool {
    // is the nearest API frame under the current callback a collection (explicit or automatic)?
    matches!(api_below_top_cb(wd), Some(Frame::ApiCollect) | Some(Frame::ApiNew))
}

pub fn on_finalize(wd: &World, n: &Node) {
    on_callback_event(wd, Cb::Finalize, n.id);
    wd.fin_events.set(wd.fin_events.get() + 1);
    if wd.in_collection.get() {
        wd.coll_finalizers.set(wd.coll_finalizers.get() + 1);
    }
    let id = n.id;
    #[cfg(not(feature = "finalization"))]
    {
        wd.err("C05", "finalize_with_feature_off", "finalize_called_feature_off".into(), format!("Finalize::finalize was called on #{} although the finalization feature is disabled", id));
    }
    bump(&wd.stats.is_tracing_samples);
    if state::is_tracing().ok() != Some(false) {
        wd.err("C12", "is_tracing_in_finalizer", format!("is_tracing_true_in_finalizer:{}", wd.stack_sig()), format!("state::is_tracing() = {:?} inside the finalizer of #{}", state::is_tracing().ok(), id));
    }
    let coll_phase = wd.in_collection.get() && first_api_is_collection(wd);
    {
        let mut m = wd.m.borrow_mut();
        let (hmin, _hmax) = m.holders(id);
        let Some(o) = m.obj_mut(id) else { return };
        if o.val != Val::Alive {
            wd.err("C05", "finalize_after_drop", format!("finalize_on_{:?}", o.val), format!("finalizer of #{} ran although the value is {:?}", id, o.val));
            return;
        }
        if !o.armed {
            let why = if o.born_in_finalizer && o.fin_count == 0 { "created_in_finalizer" } else { "twice" };
            let prop = if o.resurrected { "C06" } else { "C05" };
            wd.err(prop, "finalized_again", format!("finalize_{}{}", why, if o.resurrected { ":resurrected" } else { "" }), format!("finalizer of #{} ran although it was not due (already finalized {} times, not re-armed, created in finalizer: {}, resurrected earlier: {})", id, o.fin_count, o.born_in_finalizer, o.resurrected));
        }
        if !o.seen_unreach {
            wd.err("C05", "finalize_live_object", format!("finalize_never_unreachable:{}", if coll_phase { "collector" } else { "rc" }), format!("finalizer of #{} ran although the object was reachable from program-held pointers ever since it was created / re-armed ({} holders now; stack {})", id, hmin, wd.stack_sig()));
        }
        o.fin_count += 1;
        o.armed = false;
        if !o.spec.fin.is_empty() && wd.in_collection.get() {
            wd.coll_mutated.set(true);
        }
    }
    // Within one pass the collector runs all finalizers, then (in a later pass, after tracing again) all destructors.
    // A finalizer that runs after a destructor of the current pass with no drop glue in progress (i.e. not released
    // by the destructor of an object that owned it through an untraced field) was run by the collector itself.
    let glue_in_progress = wd.m.borrow().objs.iter().any(|o| o.glue_pending);
    if wd.coll_drop_phase.get() && coll_phase && !glue_in_progress {
        wd.err("C05", "finalize_after_drop_of_set", "finalizer_after_first_drop_of_pass".into(), format!("finalizer of #{} ran after destructors of the same collector pass had already run", id));
    }
    // everything reachable from the object is still undropped
    let mut seen = HashSet::new();
    neighbours_intact(wd, n, &mut seen, id, 0);
}

fn neighbours_intact(wd: &World, n: &Node, seen: &mut HashSet<u32>, root: u32, depth: usize) {
    if n.canary_state() != CanaryState::Good {
        wd.err("C05", "finalizer_sees_dropped", format!("finalizer_reaches_{:?}", n.canary_state()), format!("while the finalizer of #{} runs, an object reachable from it has canary {:?}", root, n.canary_state()));
        return;
    }
    if !seen.insert(n.id) || depth > 64 {
        return;
    }
    if n.id != root {
        let v = wd.m.borrow().obj(n.id).map(|o| o.val);
        if v != Some(Val::Alive) {
            wd.err("C05", "finalizer_sees_dropped", format!("finalizer_reaches_{:?}", v), format!("while the finalizer of #{} runs, object #{} reachable from it is {:?}", root, n.id, v));
            return;
        }
    }
    for s in n.t.iter().chain(n.h.iter()).chain(std::iter::once(&*n.md)) {
        let p = s.borrow().as_ref().map(|c| &**c as *const Node);
        if let Some(p) = p {
            neighbours_intact(wd, unsafe { &*p }, seen, root, depth + 1);
        }
    }
}

pub fn on_drop(wd: &World, n: &Node) {
    on_callback_event(wd, Cb::Drop, n.id);
    wd.drop_events.set(wd.drop_events.get() + 1);
    let id = n.id;
    bump(&wd.stats.is_tracing_samples);
    if state::is_tracing().ok() != Some(false) {
        wd.err("C12", "is_tracing_in_destructor", format!("is_tracing_true_in_drop:{}", wd.stack_sig()), format!("state::is_tracing() = {:?} inside the destructor of #{}", state::is_tracing().ok(), id));
    }
    let by_collector = wd.in_collection.get() && first_api_is_collection(wd);
    if by_collector && !wd.coll_drop_phase.get() {
        wd.coll_drop_phase.set(true);
        wd.drop_phase_id.set(wd.drop_phase_id.get() + 1);
    }
    let reach = wd.m.borrow().reach();
    let direct = {
        let cbs = wd.stack.borrow().iter().filter(|f| matches!(f, Frame::Cb(_, _))).count();
        cbs == 1 && !wd.m.borrow().objs.iter().any(|o| o.glue_pending)
    };
    {
        let mut m = wd.m.borrow_mut();
        let (hmin, hmax) = m.holders(id);
        let Some(o) = m.obj_mut(id) else { return };
        match o.val {
            Val::Alive => {
                if reach.contains(&id) {
                    wd.err("C01", "drop_of_reachable", format!("drop_reachable:{}", if by_collector { "collector" } else { "rc" }), format!("the value of #{} was dropped although it is reachable from program-held pointers ({}..{} handles exist; stack {})", id, hmin, hmax, wd.stack_sig()));
                } else if !wd.in_collection.get() && hmin > 0 {
                    wd.err("C04", "rc_drop_with_handles", "rc_drop_while_handles_exist".into(), format!("#{} was dropped by reference counting although {} Cc pointers to it still exist (count too low)", id, hmin));
                }
                #[cfg(feature = "finalization")]
                if o.armed && !wd.is_degraded() && !wd.in_collection.get() {
                    // the same observation in C04's terms: the last-owner drop did not finalize an object that was due
                    wd.err("C04", "rc_drop_without_finalize", "last_owner_drop_skipped_finalizer".into(), format!("the last Cc to #{} was dropped outside a collection and its value destroyed without the finalization that was due", id));
                }
                #[cfg(feature = "finalization")]
                if o.armed && !wd.is_degraded() {
                    wd.err("C05", "drop_without_finalize", format!("dropped_unfinalized:{}", if by_collector { "collector" } else { "rc" }), format!("#{} was dropped without having been finalized although finalization was due", id));
                }
                // only destructors the collector runs itself (members of its garbage list): no other callback frame
                // between the collection and this destructor, and no drop glue of another value in progress (an object
                // released by the glue of a member, or by a callback, dies by plain reference counting: handing out a Cc
                // to it earlier in the phase, and getting it back, was legitimate)
                if o.upgraded_in_drop_phase != 0 && o.upgraded_in_drop_phase == wd.drop_phase_id.get() && by_collector && direct {
                    wd.err("C08", "upgrade_some_dying", "upgraded_then_dropped_same_phase".into(), format!("Weak::upgrade handed out #{} during the drop phase that then dropped it", id));
                }
            }
            Val::Unboxed => {
                // a value handed to Cc::new that never reached a box: Cc::new is unwinding, so the automatic
                // collection it had started is over
                wd.in_collection.set(false);
            }
            Val::Unwrapped => {}
            Val::Dropped => {
                wd.err("C03", "double_drop", "double_drop_model".into(), format!("the value of #{} was dropped twice", id));
                return;
            }
            Val::Uninit | Val::Vanished => {
                wd.err("C14", "drop_of_uninit", "drop_of_never_constructed".into(), format!("Drop ran for #{} whose new_cyclic closure never produced a value", id));
                return;
            }
        }
        if !o.box_live && o.val == Val::Alive {
            wd.err("C03", "drop_after_free", "drop_after_box_freed".into(), format!("the value of #{} was dropped after its box was released", id));
        }
        o.val = Val::Dropped;
        o.glue_pending = true;
        o.glue_mark = wd.cb_total.get();
    }
    wd.m.borrow_mut().latch();
}

/// The drop glue of the value of `id` has finished: all its slots have been released.
pub fn on_glue_end(wd: &World, id: u32) {
    let targets: Vec<u32>;
    let quiet: bool;
    {
        let Ok(mut m) = wd.m.try_borrow_mut() else { return };
        let Some(o) = m.obj_mut(id) else { return };
        if !o.glue_pending {
            return;
        }
        o.glue_pending = false;
        // (the ManuallyDrop slot, index NT, is not released by the glue)
        targets = o.t[..NT].iter().chain(o.h.iter()).flatten().cloned().collect();
        // callbacks that ran during the glue (destructors of solely owned objects, cleaning actions and whatever
        // they did) may have moved the targets in or out of the buffer after the slot was released
        quiet = o.glue_mark == wd.cb_total.get();
    }
    for t in targets {
        lost_holder(wd, t);
        if !quiet {
            if let Some(o) = wd.m.borrow_mut().obj_mut(t) {
                o.buffered = Tri::Unk;
            }
        }
    }
}

#[cfg(feature = "cleaners")]
pub fn on_action(wd: &World, owner: u32, idx: usize) {
    on_callback_event(wd, Cb::Action, owner);
    bump(&wd.stats.actions_run);
    bump(&wd.stats.is_tracing_samples);
    if state::is_tracing().ok() != Some(false) {
        wd.err("C12", "is_tracing_in_action", format!("is_tracing_true_in_action:{}", wd.stack_sig()), format!("state::is_tracing() = {:?} inside cleaning action {} of #{}", state::is_tracing().ok(), idx, owner));
    }
    let cleaning_this = wd.cleaning.borrow().contains(&(owner, idx));
    let mut m = wd.m.borrow_mut();
    let cleaner_dropping = m.obj(owner).map_or(false, |o| o.cleaner_enter_seen && !o.cleaner_exit_seen);
    if let Some(a) = m.obj_mut(owner).and_then(|o| o.actions.get_mut(idx)) {
        a.runs += 1;
        if a.runs > 1 {
            wd.err("C10", "action_ran_twice", "action_ran_twice".into(), format!("cleaning action {} of #{} ran {} times", idx, owner, a.runs));
        } else if !cleaning_this && !cleaner_dropping && !wd.is_degraded() && wd.fault_fired.get() == 0 {
            // an action runs when its own clean() is called or when its Cleaner is dropped, and at no other time
            wd.err("C10", "action_ran_without_trigger", format!("action_ran_without_trigger:{}", wd.stack_sig()), format!("cleaning action {} of #{} ran although neither its clean() is being called nor its Cleaner is being dropped (stack {})", idx, owner, wd.stack_sig()));
        }
    }
}

#[cfg(feature = "cleaners")]
pub fn on_cleaner_marker(wd: &World, id: u32, exit: bool) {
    let mut m = wd.m.borrow_mut();
    let Some(o) = m.obj_mut(id) else { return };
    if !exit {
        o.cleaner_enter_seen = true;
        return;
    }
    o.cleaner_exit_seen = true;
    bump(&wd.stats.cleaner_drops);
    if wd.is_degraded() || wd.fault_fired.get() > 0 {
        return;
    }
    let pending: Vec<usize> = o.actions.iter().enumerate().filter(|(_, a)| a.runs == 0).map(|(i, _)| i).collect();
    if !pending.is_empty() {
        let sig = format!("actions_pending_at_cleaner_drop_exit:{}", wd.stack_sig());
        let detail = format!("the Cleaner of #{} has been dropped but actions {:?} have not run (stack {})", id, pending, wd.stack_sig());
        drop(m);
        wd.err("C10", "action_not_run_by_cleaner_drop", sig, detail);
    }
}

/// State right after a panic was caught at the API boundary (C07).
pub fn after_unwind(wd: &World, what: &str) {
    wd.feature(FT_UNWIND, what.bytes().fold(0u64, |h, b| h.wrapping_mul(31).wrapping_add(b as u64)), wd.in_collection.get() as u64);
    // every object that exists when a panic is caught may have been affected by it (also by a second fault: objects
    // created between two faults are not exempt from the second one)
    wd.fault_obj_mark.set(wd.m.borrow().objs.len() as u32);
    match state::is_tracing().ok() {
        Some(false) => {}
        _ if !wd.judge_idle_after_unwind.get() => {}
        other => wd.err("C07", "is_tracing_after_unwind", format!("is_tracing_{:?}_after_unwind:{}", other, what), format!("after a panic unwound out of {}, state::is_tracing() = {:?}", what, other)),
    }
    // "the collector is left idle": once the panic has arrived at a top-level API boundary no collection, finalizer or
    // destructor is running, so none of the collector's phase flags may still be set (a stuck flag makes later
    // try_unwrap / finalize_again / Weak::upgrade / collect_cycles calls misbehave). Read through the hook.
    if !wd.in_callback() && wd.judge_idle_after_unwind.get() {
        if let Some((c, f, d)) = verif::state_flags() {
            if c || f || d {
                wd.err("C07", "collector_not_idle_after_unwind", format!("collector_not_idle_after_unwind:c{}f{}d{}", c as u8, f as u8, d as u8), format!("after a panic unwound out of {} to the top level, the collector still reports collecting={} finalizing={} dropping={}", what, c, f, d));
            }
        }
    }
    // executions_count may have moved by a collection that unwound: resynchronise, it is judged by C07's own probe
    if let Ok(e) = state::executions_count() {
        wd.expected_exec.set(e as u64);
    }
    wd.coll_drop_phase.set(false);
    wd.releasing.borrow_mut().clear();
    // everything may be buffered or not after an unwound collection
    let mut m = wd.m.borrow_mut();
    for o in m.objs.iter_mut() {
        o.buffered = Tri::Unk;
        o.map_buffered = Tri::Unk;
        o.glue_pending = false;
    }
}

pub fn check_exec_count(wd: &World, what: &str) {
    if wd.new_in_flight.get() > 0 {
        return; // judged when the creating call returns (its own trigger decision is part of the count)
    }
    bump(&wd.stats.exec_count_checks);
    if let Ok(e) = state::executions_count() {
        if e as u64 != wd.expected_exec.get() {
            let d = e as i64 - wd.expected_exec.get() as i64;
            wd.err("C11", "executions_count", format!("executions_count_off_by_{}:{}", d, what), format!("state::executions_count() = {} but {} collections were actually started (after {})", e, wd.expected_exec.get(), what));
            wd.expected_exec.set(e as u64);
        }
    }
}

// ---------------------------------------------------------------------------------------------------------------
// creation (C15 trigger decision, C11 executions_count, C05 already_finalized, C14)

pub struct PreNew {
    done: std::cell::Cell<bool>,
    pub policy_done: std::cell::Cell<bool>,
    pub saw_collection: std::cell::Cell<bool>,
    exec0: usize,
    expected0: u64,
    pub predicted: Option<bool>,
    auto: bool,
    allocated: usize,
    buffered: usize,
    bt: usize,
    threshold: usize,
    in_collection: bool,
}

pub fn pre_new(wd: &World) -> PreNew {
    wd.new_in_flight.set(wd.new_in_flight.get() + 1);
    let expected0 = wd.expected_exec.get();
    let exec0 = state::executions_count().unwrap_or(0);
    let allocated = state::allocated_bytes().unwrap_or(0);
    let buffered = state::buffered_objects_count().unwrap_or(0);
    let in_collection = wd.in_collection.get();
    #[cfg(feature = "auto-collect")]
    {
        let cfg = rust_cc::config::config(|c| (c.auto_collect(), c.buffered_objects_threshold().map_or(0, |b| b.get())));
        let threshold = verif::bytes_threshold();
        if let (Ok((auto, bt)), Some(threshold)) = (cfg, threshold) {
            let predicted = !in_collection && auto && (allocated > threshold || (bt != 0 && buffered > bt));
            return PreNew { done: std::cell::Cell::new(false), policy_done: std::cell::Cell::new(false), saw_collection: std::cell::Cell::new(false), exec0, expected0, predicted: Some(predicted), auto, allocated, buffered, bt, threshold, in_collection };
        }
        PreNew { done: std::cell::Cell::new(false), policy_done: std::cell::Cell::new(false), saw_collection: std::cell::Cell::new(false), exec0, expected0, predicted: None, auto: false, allocated, buffered, bt: 0, threshold: 0, in_collection }
    }
    #[cfg(not(feature = "auto-collect"))]
    {
        PreNew { done: std::cell::Cell::new(false), policy_done: std::cell::Cell::new(false), saw_collection: std::cell::Cell::new(false), exec0, expected0, predicted: Some(false), auto: false, allocated, buffered, bt: 0, threshold: 0, in_collection }
    }
}

impl Drop for PreNew {
    fn drop(&mut self) {
        // unwound through (a panic is propagating out of a nested creation): nothing is judged
        if !self.done.get() {
            if let Some(wd) = try_w() {
                wd.new_in_flight.set(wd.new_in_flight.get().saturating_sub(1));
            }
        }
    }
}

/// new_cyclic: called when its closure starts, i.e. right after the automatic collection (if any) and the
/// allocation of the box: the point where the C15 post-conditions can be sampled undisturbed.
pub fn cyclic_closure_start(wd: &World, pre: &PreNew) {
    pre.policy_done.set(true);
    if !pre.saw_collection.get() && !pre.in_collection && state::executions_count().unwrap_or(0) > pre.exec0 {
        // the automatic collection ran without invoking any callback: it still processed the buffer
        pre.saw_collection.set(true);
        bump(&wd.stats.collections);
        bump(&wd.stats.auto_collections);
        collection_finished(wd, true);
    }
    if pre.predicted == Some(true) && wd.fault_fired.get() == 0 && wd.expected_exec.get() == pre.expected0 {
        policy_after_collection(wd, wd.last_box_alloc.get().1, "Cc::new_cyclic");
    }
}

/// The automatic collection started by a creating call is over (the harness saw callbacks of it).
pub fn auto_collection_done(wd: &World, pre: &PreNew, normal: bool) {
    pre.saw_collection.set(true);
    collection_finished(wd, normal);
}

pub fn post_new(wd: &World, pre: &PreNew, ok: bool, what: &str) {
    pre.done.set(true);
    wd.new_in_flight.set(wd.new_in_flight.get().saturating_sub(1));
    let exec1 = state::executions_count().unwrap_or(0);
    let delta = exec1 as i64 - pre.exec0 as i64;
    // real collections started by callbacks / closures during the call were counted by op_collect
    let nested = wd.expected_exec.get() as i64 - pre.expected0 as i64;
    let own = delta - nested;
    if let Some(p) = pre.predicted {
        bump(&wd.stats.trigger_decisions);
        if p {
            bump(&wd.stats.trigger_fired);
        }
        if (ok || wd.fault_fired.get() == 0) && own != (p as i64) {
            let kind = if !pre.auto {
                "auto_off"
            } else if pre.in_collection {
                "in_collection"
            } else if pre.allocated == pre.threshold {
                "bytes_eq"
            } else if pre.allocated == pre.threshold + 1 {
                "bytes_eq_plus1"
            } else if pre.bt != 0 && pre.buffered == pre.bt {
                "buffered_eq"
            } else if pre.bt != 0 && pre.buffered == pre.bt + 1 {
                "buffered_eq_plus1"
            } else {
                "other"
            };
            if pre.in_collection && own > 0 {
                wd.err("C12", "nested_collection_ran", format!("creation_started_collection_inside_collection:{}", wd.stack_sig()), format!("{} called from a callback of a running collection started {} collection(s) (stack {})", what, own, wd.stack_sig()));
            }
            wd.err("C15", "trigger_decision", format!("trigger_{}_expected_{}:{}", own, p as i64, kind), format!("{}: {} collection(s) started by the creation itself, expected {} (auto_collect={}, allocated={}, threshold={}, buffered={}, buffered_threshold={}, already collecting={})", what, own, p as i64, pre.auto, pre.allocated, pre.threshold, pre.buffered, pre.bt, pre.in_collection));
        } else if ok && p && wd.fault_fired.get() == 0 && nested == 0 && !pre.policy_done.get() {
            policy_after_collection(wd, wd.last_box_alloc.get().1, what);
        }
    }
    if own >= 1 && !pre.saw_collection.get() && !pre.in_collection {
        // an automatic collection ran without invoking any callback: it still processed the buffer
        bump(&wd.stats.collections);
        bump(&wd.stats.auto_collections);
        collection_finished(wd, ok);
    }
    // whatever the creation itself started is now part of the real count
    wd.expected_exec.set((wd.expected_exec.get() as i64 + own).max(0) as u64);
}

/// C15 post-conditions, evaluated on the state at the end of the collection (`new_box` = size of a box
/// allocated after the collection ended, 0 if none).
pub fn policy_after_collection(wd: &World, new_box: usize, what: &str) {
    #[cfg(feature = "auto-collect")]
    {
        if !wd.mode.get().policy {
            return;
        }
        let Some(th) = verif::bytes_threshold() else { return };
        let Ok(percent) = rust_cc::config::config(|c| c.adjustment_percent()) else { return };
        let Ok(allocated) = state::allocated_bytes() else { return };
        let allocated = allocated.saturating_sub(new_box);
        let init = wd.init_threshold.get();
        if init == 0 {
            return;
        }
        let mut problems: Vec<&'static str> = Vec::new();
        let ratio = th / init;
        if th < init {
            problems.push("below_initial");
        } else if th % init != 0 || !ratio.is_power_of_two() {
            problems.push("not_power_of_two_multiple");
        }
        if th <= allocated {
            problems.push("not_above_allocated");
        }
        if percent != 0.0 && th > init {
            let exceeds = (allocated as f64) > (th as f64) * percent;
            let halving_too_low = allocated >= th / 2;
            if !exceeds && !halving_too_low {
                problems.push("needlessly_high");
            }
        }
        for p in problems {
            wd.err("C15", "threshold_policy", format!("threshold_{}", p), format!("after the collection in {}: threshold={} initial={} allocated={} adjustment_percent={}", what, th, init, allocated, percent));
        }
    }
    #[cfg(not(feature = "auto-collect"))]
    {
        let _ = (wd, new_box, what);
    }
}

pub fn created(wd: &World, id: u32, cc: &Cc<Node>, cyclic: bool) {
    let payload = &**cc as *const Node as usize;
    let fin_on_stack = wd.stack.borrow().iter().any(|f| matches!(f, Frame::Cb(Cb::Finalize, _)));
    let strict_inside = {
        let s = wd.stack.borrow();
        match s.iter().rposition(|f| matches!(f, Frame::Cb(Cb::Finalize, _))) {
            Some(p) => !s.iter().skip(p + 1).any(|f| matches!(f, Frame::ApiCollect | Frame::ApiNew)),
            None => false,
        }
    };
    let mut m = wd.m.borrow_mut();
    let Some(o) = m.obj_mut(id) else { return };
    o.val = Val::Alive;
    o.buffered = Tri::Out;
    if !o.box_live || o.box_addr == 0 {
        wd.err("C11", "box_not_observed", "new_without_box_event".into(), format!("Cc::new returned #{} but no managed box allocation was reported", id));
    } else if !(payload >= o.box_addr && payload <= o.box_addr + o.box_size) {
        wd.err("C11", "payload_outside_box", "payload_outside_reported_box".into(), format!("#{}: payload at {:#x} is outside the reported box [{:#x}, +{})", id, payload, o.box_addr, o.box_size));
    }
    #[cfg(feature = "finalization")]
    {
        let af = cc.already_finalized();
        if strict_inside {
            o.born_in_finalizer = true;
            if !af {
                wd.err("C05", "created_in_finalizer_not_finalized", "created_in_finalizer_reports_unfinalized".into(), format!("#{} was created inside a finalizer but already_finalized() is false", id));
            }
            o.armed = false;
        } else if !fin_on_stack {
            if af {
                wd.err("C05", "fresh_object_finalized", "fresh_object_reports_finalized".into(), format!("#{} was created outside any finalizer but already_finalized() is true", id));
            }
            o.armed = true;
        } else {
            // inside a finalizer, but under a nested collection's non-finalizer callback: either is acceptable
            o.born_in_finalizer = af;
            o.armed = !af;
        }
    }
    #[cfg(not(feature = "finalization"))]
    {
        let _ = (fin_on_stack, strict_inside);
    }
    let sc = cc.strong_count();
    if sc != 1 {
        let prop = if cyclic { "C14" } else { "C04" };
        wd.err(prop, "fresh_strong_count", format!("fresh_strong_count_{}", sc), format!("a freshly created #{} reports strong_count {}", id, sc));
    }
    drop(m);
    wd.m.borrow_mut().latch();
}

#[cfg(feature = "weak-ptrs")]
pub fn in_cyclic_closure(wd: &World, wk: &Weak<Node>, id: u32) {
    let sc = wk.strong_count();
    if sc != 0 {
        wd.err("C14", "cyclic_weak_strong_count", "closure_weak_strong_count_nonzero".into(), format!("inside the new_cyclic closure of #{} the Weak reports strong_count {}", id, sc));
    }
    let (wmin, wmax) = wd.m.borrow().weak_holders(id);
    let wc = wk.weak_count();
    if wc < wmin || wc > wmax {
        wd.err("C09", "weak_count", "closure_weak_count".into(), format!("inside the new_cyclic closure of #{} weak_count() = {} but {}..{} Weak pointers exist", id, wc, wmin, wmax));
    }
}

#[cfg(feature = "weak-ptrs")]
pub fn cyclic_unwound(wd: &World, id: u32, closure_ran: bool) {
    let mut m = wd.m.borrow_mut();
    if let Some(o) = m.obj_mut(id) {
        if o.val == Val::Uninit {
            o.val = Val::Vanished;
        }
        // the box (if it was ever allocated) must be gone once new_cyclic has unwound
        if o.box_live {
            let sig = format!("cyclic_box_live_after_unwind:closure_ran={}", closure_ran);
            let d = format!("new_cyclic for #{} unwound (closure ran: {}) but its box is still allocated", id, closure_ran);
            drop(m);
            wd.err("C14", "cyclic_box_leaked", sig, d);
            return;
        }
        // ... and so must the side record, unless the closure saved clones of the Weak (then: when the last one goes)
        let side = o.side_addr;
        let saved = m.weak_holders(id).1;
        if side != 0 && saved == 0 && m.sides.contains_key(&side) {
            drop(m);
            wd.err("C14", "cyclic_side_record_leaked", format!("cyclic_side_record_live_after_unwind:closure_ran={}", closure_ran), format!("new_cyclic for #{} unwound (closure ran: {}), no clone of its Weak exists, but the weak side record is still allocated", id, closure_ran));
        }
    }
}

// ---------------------------------------------------------------------------------------------------------------
// weak upgrade (C08)

#[derive(Clone, Copy, Debug, PartialEq, Eq)]
pub enum Expect {
    MustFail(&'static str),
    MustSucceed,
    Either(&'static str),
}

fn site_index(wd: &World) -> (usize, &'static str) {
    match wd.innermost_cb() {
        None => (0, "TOP"),
        Some((Cb::Finalize, _)) => (1, "FIN"),
        Some((Cb::Action, _)) => (2, "ACTION"),
        Some((Cb::Drop, _)) => (3, "DROP"),
        Some((Cb::Closure, _)) => (4, "CLOSURE"),
        Some(_) => (4, "TRACE"),
    }
}

#[cfg(feature = "weak-ptrs")]
pub fn upgrade_expectation(wd: &World, t: WT) -> Expect {
    let m = wd.m.borrow();
    match t {
        WT::None => Expect::Either("no_weak"),
        WT::Dangling => Expect::MustFail("weak_new"),
        WT::To(id) => {
            let Some(o) = m.obj(id) else { return Expect::Either("unknown") };
            match o.val {
                Val::Uninit => Expect::MustFail("uninitialised"),
                Val::Vanished => Expect::MustFail("never_constructed"),
                Val::Dropped => Expect::MustFail("dropped"),
                Val::Unwrapped => Expect::MustFail("unwrapped"),
                Val::Unboxed => Expect::Either("unboxed"),
                Val::Alive => {
                    let (hmin, _) = m.holders(id);
                    let releasing = wd.releasing.borrow().contains(&id);
                    if hmin == 0 && !releasing {
                        return Expect::Either("no_definite_holder");
                    }
                    // after a caught panic the objects that existed then may have been leaked in any state (their
                    // Weaks may refuse for good); objects created afterwards are not involved and are judged fully
                    if wd.is_degraded() && id < wd.fault_obj_mark.get() {
                        return Expect::Either("degraded");
                    }
                    if wd.in_collection.get() && wd.coll_drop_phase.get() && !m.reach().contains(&id) {
                        return Expect::Either("collector_drop_phase");
                    }
                    match site_index(wd).0 {
                        0 | 1 | 2 => Expect::MustSucceed,
                        _ => Expect::Either("site_not_judged"),
                    }
                }
            }
        }
    }
}

#[cfg(feature = "weak-ptrs")]
pub fn upgrade_some(wd: &World, t: WT, c: &Cc<Node>, e: Expect) -> bool {
    bump(&wd.stats.upgrades_some);
    let (si, site) = site_index(wd);
    bump(&wd.stats.upgrade_sites[si]);
    let prop = if wd.in_closure() { "C14" } else { "C08" };
    if let Expect::MustFail(why) = e {
        wd.err(prop, "upgrade_some_dead", format!("upgrade_some_{}:site={}", why, site), format!("Weak::upgrade returned Some for {:?} which is {} (stack {})", t, why, wd.stack_sig()));
        return false;
    }
    let WT::To(id) = t else { return false };
    // identity and integrity of what was handed out
    let n: &Node = c;
    let addr = n as *const Node as usize;
    let m = wd.m.borrow();
    let Some(o) = m.obj(id) else { return false };
    if n.canary_state() != CanaryState::Good || n.id != id || !(addr >= o.box_addr && addr <= o.box_addr + o.box_size) {
        wd.err("C08", "upgrade_wrong_object", format!("upgrade_wrong_or_damaged:site={}", site), format!("Weak::upgrade for #{} returned a pointer to {:#x} (canary {:?}, id {}) but the allocation is [{:#x}, +{})", id, addr, n.canary_state(), n.id, o.box_addr, o.box_size));
        return false;
    }
    drop(m);
    if let Expect::Either("collector_drop_phase") = e {
        bump(&wd.stats.upgrades_indeterminate);
        if let Some(o) = wd.m.borrow_mut().obj_mut(id) {
            o.upgraded_in_drop_phase = wd.drop_phase_id.get();
        }
    }
    true
}

#[cfg(feature = "weak-ptrs")]
pub fn upgrade_none(wd: &World, t: WT, e: Expect) {
    bump(&wd.stats.upgrades_none);
    let (si, site) = site_index(wd);
    bump(&wd.stats.upgrade_sites[si]);
    if let Expect::Either("collector_drop_phase") = e {
        bump(&wd.stats.upgrades_indeterminate);
    }
    if e == Expect::MustSucceed {
        let WT::To(id) = t else { return };
        let (c, f, d) = verif::state_flags().unwrap_or((false, false, false));
        // context of the refusal (for the signature): which collector phases are nominally active
        let in_list = wd.m.borrow().obj(id).map_or(false, |o| !wd.m.borrow().reach().contains(&o.id));
        wd.err("C08", "upgrade_none_alive", format!("upgrade_none_alive:site={}:stack={}:target_unreachable={}:flags=c{}f{}d{}", site, wd.stack_sig(), in_list, c as u8, f as u8, d as u8), format!("Weak::upgrade returned None for #{} although {} Cc pointers to it exist and its destruction has not begun (stack {})", id, wd.m.borrow().holders(id).0, wd.stack_sig()));
    }
}

// ---------------------------------------------------------------------------------------------------------------
// try_unwrap (C13 / C12) and finalize_again (C12)

pub struct PreUnwrap {
    sc: u32,
    wc: u32,
    af: bool,
    payload: usize,
    buffered: Option<bool>,
    fin_events: u64,
    drop_events: u64,
    in_cb: bool,
}

fn is_buffered(addr: usize) -> Option<bool> {
    verif::buffer_walk(100_000).map(|b| b.nodes.iter().any(|n| n.addr == addr))
}

pub fn pre_try_unwrap(wd: &World, id: u32, cc: &Cc<Node>) -> PreUnwrap {
    let box_addr = wd.m.borrow().obj(id).map_or(0, |o| o.box_addr);
    PreUnwrap {
        sc: cc.strong_count(),
        #[cfg(feature = "weak-ptrs")]
        wc: cc.weak_count(),
        #[cfg(not(feature = "weak-ptrs"))]
        wc: 0,
        #[cfg(feature = "finalization")]
        af: cc.already_finalized(),
        #[cfg(not(feature = "finalization"))]
        af: false,
        payload: &**cc as *const Node as usize,
        buffered: if wd.mode.get().buffer_walk { is_buffered(box_addr) } else { None },
        fin_events: wd.fin_events.get(),
        drop_events: wd.drop_events.get(),
        in_cb: wd.in_callback(),
    }
}

pub fn try_unwrap_ok(wd: &World, id: u32, pre: &PreUnwrap, v: &Node) {
    let site = site_index(wd).1;
    if in_finalizer_or_destructor(wd) == Some(true) {
        wd.err("C12", "try_unwrap_ok_in_callback", format!("try_unwrap_ok:site={}", site), format!("Cc::try_unwrap returned Ok for #{} from inside a finalizer / destructor (stack {})", id, wd.stack_sig()));
    }
    if pre.sc != 1 {
        wd.err("C13", "try_unwrap_ok_shared", format!("try_unwrap_ok_strong_count_{}", pre.sc.min(3)), format!("Cc::try_unwrap returned Ok for #{} although strong_count() was {}", id, pre.sc));
    }
    if v.id != id || v.canary_state() != CanaryState::Good || !v.pad_ok() {
        wd.err("C13", "try_unwrap_value_damaged", "try_unwrap_value_damaged".into(), format!("the value moved out of #{} is damaged (id {}, canary {:?})", id, v.id, v.canary_state()));
    }
    if wd.fin_events.get() != pre.fin_events || wd.drop_events.get() != pre.drop_events {
        wd.err("C13", "try_unwrap_ran_callbacks", "try_unwrap_ran_finalizer_or_destructor".into(), format!("Cc::try_unwrap on #{} ran a finalizer or destructor", id));
    }
    let mut m = wd.m.borrow_mut();
    let Some(o) = m.obj_mut(id) else { return };
    o.val = Val::Unwrapped;
    // slots must be what the program stored
    for i in 0..NTM {
        let s = v.tslot(i).unwrap();
        if s.borrow().as_ref().map(|c| c.id) != o.t[i] {
            wd.err("C13", "try_unwrap_value_damaged", "try_unwrap_slot_changed".into(), format!("traced slot {} of the value moved out of #{} differs from what the program stored", i, id));
        }
    }
    if o.box_live {
        wd.err("C13", "try_unwrap_box_not_freed", "try_unwrap_box_live".into(), format!("Cc::try_unwrap returned Ok for #{} but its allocation was not released", id));
    }
    let box_addr = o.box_addr;
    drop(m);
    if wd.mode.get().buffer_walk && !pre.in_cb {
        if is_buffered(box_addr) == Some(true) {
            wd.err("C13", "try_unwrap_still_buffered", "try_unwrap_still_buffered".into(), format!("#{} was unwrapped but its (released) allocation is still in the buffer of possible cycle roots", id));
        }
    }
    acquired(wd, id, Leave::Unwrap);
}

pub fn try_unwrap_err(wd: &World, id: u32, pre: &PreUnwrap, c: &Cc<Node>) {
    let callbacks_forbid = wd.stack.borrow().iter().any(|f| matches!(f, Frame::Cb(Cb::Finalize, _) | Frame::Cb(Cb::Drop, _) | Frame::Cb(Cb::Action, _)));
    if pre.sc == 1 && !pre.in_cb && !wd.in_collection.get() {
        wd.err("C13", "try_unwrap_err_unique", "try_unwrap_err_although_unique".into(), format!("Cc::try_unwrap returned Err for #{} although strong_count() was 1 outside any collection / callback", id));
    }
    // a cleaning action that the program runs itself through Cleanable::clean() at top level is neither a collection, nor a
    // finalizer, nor the destructor of a managed value
    let top_level_clean = {
        let s = wd.stack.borrow();
        let frames: Vec<&Frame> = s.iter().filter(|f| !matches!(f, Frame::ApiOther)).collect();
        frames.len() == 2 && matches!(frames[0], Frame::ApiClean) && matches!(frames[1], Frame::Cb(Cb::Action, _))
    };
    if pre.sc == 1 && top_level_clean && !wd.in_collection.get() && !wd.is_degraded() {
        wd.err("C13", "try_unwrap_err_unique", "try_unwrap_err_although_unique:clean>ACTION".into(), format!("Cc::try_unwrap returned Err for #{} although strong_count() was 1, from a cleaning action run by a top-level Cleanable::clean() (no collection, finalizer or destructor is running)", id));
    }
    let _ = callbacks_forbid;
    let payload = &**c as *const Node as usize;
    if payload != pre.payload {
        wd.err("C13", "try_unwrap_err_other_pointer", "try_unwrap_err_pointer_changed".into(), format!("Cc::try_unwrap(Err) for #{} handed back a different pointer ({:#x} vs {:#x})", id, payload, pre.payload));
        return;
    }
    let sc = c.strong_count();
    #[cfg(feature = "weak-ptrs")]
    let wc = c.weak_count();
    #[cfg(not(feature = "weak-ptrs"))]
    let wc = 0;
    #[cfg(feature = "finalization")]
    let af = c.already_finalized();
    #[cfg(not(feature = "finalization"))]
    let af = false;
    let prop = if pre.in_cb { "C12" } else { "C13" };
    if sc != pre.sc || wc != pre.wc || af != pre.af {
        wd.err(prop, "try_unwrap_err_changed_state", "try_unwrap_err_changed_counts".into(), format!("Cc::try_unwrap(Err) for #{} changed (strong, weak, finalized) from ({}, {}, {}) to ({}, {}, {})", id, pre.sc, pre.wc, pre.af, sc, wc, af));
    }
    if wd.mode.get().buffer_walk {
        let box_addr = wd.m.borrow().obj(id).map_or(0, |o| o.box_addr);
        let b = is_buffered(box_addr);
        if b.is_some() && pre.buffered.is_some() && b != pre.buffered {
            wd.err(prop, "try_unwrap_err_changed_state", "try_unwrap_err_changed_buffering".into(), format!("Cc::try_unwrap(Err) for #{} changed its buffer membership from {:?} to {:?}", id, pre.buffered, b));
            // the same observation under C11: a refused try_unwrap is none of the events that move an object in or out
            wd.err("C11", "buffered_set", "buffered_set_changed_by_refused_try_unwrap".into(), format!("#{} went from buffered={:?} to buffered={:?} across a try_unwrap that returned Err (not a clone, mark_alive, downgrade, upgrade, unwrap, free or collection)", id, pre.buffered, b));
        }
    }
}

/// Is the caller inside a finalizer or a destructor (where try_unwrap must refuse and finalize_again must panic)?
/// Some(true) = yes for sure; Some(false) = no callback at all; None = a cleaning action run by clean(): not judged.
pub fn in_finalizer_or_destructor(wd: &World) -> Option<bool> {
    let s = wd.stack.borrow();
    if wd.in_collection.get() || s.iter().any(|f| matches!(f, Frame::Cb(Cb::Finalize, _) | Frame::Cb(Cb::Drop, _))) {
        return Some(true);
    }
    if let Some(p) = s.iter().rposition(|f| matches!(f, Frame::Cb(Cb::Action, _))) {
        // which call ran this action: a drop (destructor context) or Cleanable::clean()?
        let by = s.iter().take(p).rev().find(|f| !matches!(f, Frame::Cb(_, _)));
        return match by {
            Some(Frame::ApiDrop) | Some(Frame::ApiCollect) | Some(Frame::ApiNew) => Some(true),
            _ => None,
        };
    }
    if s.iter().any(|f| matches!(f, Frame::Cb(_, _))) {
        return None;
    }
    Some(false)
}

#[cfg(feature = "finalization")]
pub fn finalize_again_result(wd: &World, id: u32, returned: bool, before: bool, after: bool, top: bool) {
    let ctx = in_finalizer_or_destructor(wd);
    if ctx.is_none() {
        if returned && !after {
            if let Some(o) = wd.m.borrow_mut().obj_mut(id) {
                o.armed = true;
                o.seen_unreach = false;
            }
        }
        return;
    }
    let forbidden = ctx == Some(true);
    if forbidden {
        if returned {
            wd.err("C12", "finalize_again_in_callback", format!("finalize_again_returned:site={}", site_index(wd).1), format!("Cc::finalize_again on #{} did not panic inside a callback (stack {})", id, wd.stack_sig()));
        }
        if after != before {
            wd.err("C12", "finalize_again_changed_state", "finalize_again_changed_flag_in_callback".into(), format!("Cc::finalize_again on #{} inside a callback changed already_finalized() from {} to {}", id, before, after));
        }
        if returned && !after {
            if let Some(o) = wd.m.borrow_mut().obj_mut(id) {
                o.armed = true;
                o.seen_unreach = false;
            }
        }
    } else if top {
        if !returned {
            wd.err("C05", "finalize_again_panicked", "finalize_again_panicked_at_top".into(), format!("Cc::finalize_again on #{} panicked outside any collection", id));
        } else {
            if after {
                wd.err("C05", "finalize_again_no_effect", "finalize_again_no_effect".into(), format!("after Cc::finalize_again, #{} still reports already_finalized()", id));
            }
            let mut m = wd.m.borrow_mut();
            let r = m.reach();
            if let Some(o) = m.obj_mut(id) {
                o.armed = true;
                // it is reachable now (the program holds it): it must become unreachable again before the next run
                o.seen_unreach = !r.contains(&id);
            }
        }
    }
}

// ---------------------------------------------------------------------------------------------------------------
// cleaners (C10)

#[cfg(feature = "cleaners")]
pub struct PreClean {
    runs: u32,
    total_runs: u64,
    cleaner_gone: bool,
    nested_same_map: bool,
    cb_total: u64,
}

#[cfg(feature = "cleaners")]
pub fn pre_clean(wd: &World, oid: u32, idx: usize) -> PreClean {
    let m = wd.m.borrow();
    let o = m.obj(oid);
    let nested = wd.stack.borrow().iter().any(|f| matches!(f, Frame::Cb(Cb::Action, x) if *x == oid)) || wd.stack.borrow().iter().any(|f| matches!(f, Frame::Cb(Cb::Drop, x) if *x == oid));
    if let Some(a) = o.and_then(|o| o.actions.get(idx)) {
        let _ = a;
    }
    PreClean {
        runs: o.and_then(|o| o.actions.get(idx)).map_or(0, |a| a.runs),
        total_runs: wd.stats.actions_run.get(),
        cleaner_gone: o.map_or(true, |o| o.cleaner_exit_seen || !o.map_live),
        nested_same_map: nested,
        cb_total: wd.cb_total.get(),
    }
}

#[cfg(feature = "cleaners")]
pub fn post_clean(wd: &World, oid: u32, idx: usize, pre: &PreClean) {
    // clean() upgrades the map and drops that handle again: one of several handles to the map went away. If an
    // action ran meanwhile, what it did (nested clean(), collections) may have moved the map in or out again.
    if let Some(o) = wd.m.borrow_mut().obj_mut(oid) {
        if o.map_live {
            o.map_buffered = if wd.in_collection.get() || wd.cb_total.get() != pre.cb_total { Tri::Unk } else { Tri::In };
        }
    }
    if wd.fault_fired.get() > 0 || wd.is_degraded() {
        return;
    }
    let mut m = wd.m.borrow_mut();
    let Some(a) = m.obj_mut(oid).and_then(|o| o.actions.get_mut(idx)) else { return };
    a.cleaned = true;
    let runs = a.runs;
    drop(m);
    if pre.runs >= 1 || pre.cleaner_gone {
        // clean() after the action ran, or after the cleaner is gone, is a no-op: neither this action nor any other runs
        if runs != pre.runs {
            wd.err("C10", "clean_after_run", "clean_reran_action".into(), format!("clean() on action {} of #{} ran it again (it had already run / its cleaner was gone)", idx, oid));
        } else if wd.stats.actions_run.get() != pre.total_runs {
            wd.err("C10", "clean_after_run", "stale_clean_ran_another_action".into(), format!("clean() on action {} of #{}, which had already run (or whose cleaner was gone), ran {} other action(s)", idx, oid, wd.stats.actions_run.get() - pre.total_runs));
        }
    } else if !pre.nested_same_map && runs != 1 {
        wd.err("C10", "clean_did_not_run", format!("clean_did_not_run_action:{}", wd.stack_sig()), format!("the first clean() on action {} of #{} (cleaner alive) returned without running it (stack {})", idx, oid, wd.stack_sig()));
    }
}

// ---------------------------------------------------------------------------------------------------------------
// queries inside callbacks

pub fn query(wd: &World, me: Option<&Node>) {
    let _ = state::allocated_bytes();
    let _ = state::buffered_objects_count();
    let _ = state::executions_count();
    let _ = me;
    check_bytes(wd, "query");
}

// ---------------------------------------------------------------------------------------------------------------
// quiescent point

fn check_bytes(wd: &World, at: &str) {
    bump(&wd.stats.bytes_checks);
    let Ok(m) = wd.m.try_borrow() else { return };
    if let Ok(ab) = state::allocated_bytes() {
        let expect = wd.base_bytes.get() + m.box_bytes;
        if ab != expect {
            wd.err("C11", "allocated_bytes", format!("allocated_bytes_off:{}", if ab > expect { "high" } else { "low" }), format!("state::allocated_bytes() = {} but the managed boxes that exist add up to {} ({} boxes; at {})", ab, expect, m.boxes.len(), at));
        }
    }
}

struct Walk<'a> {
    wd: &'a World,
    m: &'a Model,
    seen: HashSet<u32>,
    degraded: bool,
}

impl<'a> Walk<'a> {
    fn handle(&mut self, cc: &Cc<Node>, expect: Option<u32>, via: &str) {
        let wd = self.wd;
        let n: &Node = cc;
        let addr = n as *const Node as usize;
        let cs = n.canary_state();
        let Some(id) = expect else {
            wd.err("C01", "slot_content_changed", "handle_where_model_has_none".into(), format!("{} holds a handle although the program stored none", via));
            return;
        };
        if cs != CanaryState::Good || n.id != id {
            wd.err("C01", "reachable_object_damaged", format!("reachable_canary_{:?}", cs), format!("{}: reachable object #{} reads canary {:?} / id {} at {:#x}: it was dropped or its memory was released", via, id, cs, n.id, addr));
            return;
        }
        let Some(o) = self.m.obj(id) else { return };
        // counts through this very handle (after a caught panic only the objects that existed then may be affected by it)
        let deg = self.degraded && id < wd.fault_obj_mark.get();
        bump(&wd.stats.count_checks);
        let sc = cc.strong_count();
        let (hmin, hmax) = self.m.holders(id);
        let extra = wd.releasing.borrow().iter().filter(|x| **x == id).count() as u32;
        let bad = if deg { sc < hmin } else { sc < hmin || sc > hmax + extra };
        if bad {
            wd.err("C04", "strong_count", format!("strong_count_{}", if sc < hmin { "low" } else { "high" }), format!("{}: strong_count() of #{} = {} but {}..{} Cc pointers exist{}", via, id, sc, hmin, hmax + extra, if deg { " (after a caught panic: too low is the violation)" } else { "" }));
        }
        #[cfg(feature = "weak-ptrs")]
        {
            bump(&wd.stats.weak_count_checks);
            let wc = cc.weak_count();
            let (wmin, wmax) = self.m.weak_holders(id);
            let bad = if deg { wc < wmin } else { wc < wmin || wc > wmax };
            if bad {
                wd.err("C09", "weak_count", format!("cc_weak_count_{}", if wc < wmin { "low" } else { "high" }), format!("{}: Cc::weak_count() of #{} = {} but {}..{} Weak pointers exist", via, id, wc, wmin, wmax));
            }
        }
        #[cfg(feature = "finalization")]
        {
            let af = cc.already_finalized();
            if af == o.armed && !deg {
                wd.err("C05", "already_finalized", format!("already_finalized_{}", af), format!("{}: already_finalized() of #{} = {} but it was finalized {} times (re-armed: {}, created in a finalizer: {})", via, id, af, o.fin_count, o.armed, o.born_in_finalizer));
            }
        }
        if !self.seen.insert(id) {
            return;
        }
        bump(&wd.stats.objects_walked);
        if o.val != Val::Alive {
            wd.err("C01", "reachable_object_dropped", format!("reachable_{:?}", o.val), format!("{}: reachable object #{} is {:?}", via, id, o.val));
            return;
        }
        if !o.box_live {
            wd.err("C01", "reachable_box_freed", "reachable_box_freed".into(), format!("{}: the box of reachable object #{} was released", via, id));
            return;
        }
        if !(addr >= o.box_addr && addr <= o.box_addr + o.box_size) {
            wd.err("C20", "payload_moved", "payload_address_moved".into(), format!("{}: #{} derefs to {:#x}, outside its box [{:#x}, +{})", via, id, addr, o.box_addr, o.box_size));
        }
        if !n.pad_ok() {
            wd.err("C01", "reachable_object_damaged", "reachable_payload_bytes_changed".into(), format!("{}: payload bytes of reachable object #{} changed", via, id));
        }
        if wd.mode.get().alloc_tracking && valloc::mode() != valloc::MODE_OFF {
            match valloc::lookup(o.box_addr) {
                Some(b) if !b.parked => {}
                Some(_) => wd.err("C01", "reachable_box_freed", "reachable_box_in_quarantine".into(), format!("{}: the box of reachable object #{} is in the allocator's quarantine (it was freed)", via, id)),
                None => wd.err("C01", "reachable_box_freed", "reachable_box_not_allocated".into(), format!("{}: the box of reachable object #{} is not an allocated block", via, id)),
            }
        }
        for i in 0..NTM {
            let s = n.tslot(i).unwrap();
            let b = s.borrow();
            match (b.as_ref(), o.t[i]) {
                (Some(c), e) => self.handle(c, e, &format!("#{}.t{}", id, i)),
                (None, Some(e)) => wd.err("C01", "slot_content_changed", "slot_lost_handle".into(), format!("#{}.t{} is empty although the program stored #{} there", id, i, e)),
                (None, None) => {}
            }
        }
        for (i, s) in n.h.iter().enumerate() {
            let b = s.borrow();
            match (b.as_ref(), o.h[i]) {
                (Some(c), e) => self.handle(c, e, &format!("#{}.h{}", id, i)),
                (None, Some(e)) => wd.err("C01", "slot_content_changed", "slot_lost_handle".into(), format!("#{}.h{} is empty although the program stored #{} there", id, i, e)),
                (None, None) => {}
            }
        }
        #[cfg(feature = "weak-ptrs")]
        for (i, s) in n.w.iter().enumerate() {
            let b = s.borrow();
            if let Some(wk) = b.as_ref() {
                self.weak(wk, o.w[i], &format!("#{}.w{}", id, i));
            }
        }
    }

    #[cfg(feature = "weak-ptrs")]
    fn weak(&mut self, wk: &Weak<Node>, t: WT, via: &str) {
        let wd = self.wd;
        bump(&wd.stats.weak_count_checks);
        let sc = wk.strong_count();
        let wc = wk.weak_count();
        match t {
            WT::None => {}
            WT::Dangling => {
                if sc != 0 || wc != 0 {
                    wd.err("C09", "weak_new_counts", "weak_new_counts_nonzero".into(), format!("{}: a Weak::new() pointer reports strong_count {} weak_count {}", via, sc, wc));
                }
            }
            WT::To(id) => {
                let Some(o) = self.m.obj(id) else { return };
                let deg = self.degraded && id < wd.fault_obj_mark.get();
                let (wmin, wmax) = self.m.weak_holders(id);
                let bad = if deg { wc < wmin } else { wc < wmin || wc > wmax };
                if bad {
                    wd.err("C09", "weak_count", format!("weak_weak_count_{}", if wc < wmin { "low" } else { "high" }), format!("{}: Weak::weak_count() for #{} = {} but {}..{} Weak pointers exist (value {:?}, box live {})", via, id, wc, wmin, wmax, o.val, o.box_live));
                }
                if !o.box_live {
                    bump(&wd.stats.weak_queries_after_death);
                }
                match o.val {
                    Val::Alive => {
                        let (hmin, hmax) = self.m.holders(id);
                        let extra = wd.releasing.borrow().iter().filter(|x| **x == id).count() as u32;
                        let bad = if deg { false } else { sc < hmin || sc > hmax + extra };
                        if bad {
                            wd.err("C09", "weak_strong_count", format!("weak_strong_count_{}", if sc < hmin { "low" } else { "high" }), format!("{}: Weak::strong_count() for live #{} = {} but {}..{} Cc pointers exist", via, id, sc, hmin, hmax + extra));
                        }
                    }
                    Val::Dropped | Val::Unwrapped | Val::Vanished | Val::Uninit => {
                        if sc != 0 {
                            wd.err("C09", "weak_strong_count", "weak_strong_count_nonzero_dead".into(), format!("{}: Weak::strong_count() for #{} = {} although its value is {:?}", via, id, sc, o.val));
                        }
                    }
                    Val::Unboxed => {}
                }
            }
        }
    }
}

/// The walk of C01 / C04 / C09 / C05(flag): from every register and global through real derefs, in lock-step with
/// the model.
pub fn walk_roots(wd: &World, at: &str) {
    bump(&wd.stats.qp_walks);
    let m = wd.m.borrow();
    let mut wk = Walk { wd, m: &m, seen: HashSet::new(), degraded: wd.is_degraded() };
    for (i, c) in wd.r.iter().enumerate() {
        let b = c.borrow();
        match (b.as_ref(), m.r[i]) {
            (Some(cc), e) => wk.handle(cc, e, &format!("{} r{}", at, i)),
            (None, Some(e)) => wd.err("C01", "slot_content_changed", "register_lost_handle".into(), format!("register r{} is empty although the program stored #{} there", i, e)),
            _ => {}
        }
    }
    for (i, c) in wd.g.iter().enumerate() {
        let b = c.borrow();
        match (b.as_ref(), m.g[i]) {
            (Some(cc), e) => wk.handle(cc, e, &format!("{} g{}", at, i)),
            (None, Some(e)) => wd.err("C01", "slot_content_changed", "register_lost_handle".into(), format!("global g{} is empty although the program stored #{} there", i, e)),
            _ => {}
        }
    }
    #[cfg(feature = "weak-ptrs")]
    for (i, c) in wd.wr.iter().enumerate() {
        let b = c.borrow();
        if let Some(x) = b.as_ref() {
            wk.weak(x, m.wr[i], &format!("{} wr{}", at, i));
        }
    }
    // one handle per object of the program's pool (all handles of an object are the same pointer)
    {
        let b = wd.bulk.borrow();
        let mut done: Vec<u32> = Vec::new();
        for (id, c) in b.iter().rev() {
            if !done.contains(id) {
                done.push(*id);
                wk.handle(c, Some(*id), &format!("{} pool", at));
            }
        }
    }
    #[cfg(feature = "weak-ptrs")]
    {
        let b = wd.wbulk.borrow();
        let mut done: Vec<u32> = Vec::new();
        for (id, x) in b.iter().rev() {
            if !done.contains(id) {
                done.push(*id);
                wk.weak(x, WT::To(*id), &format!("{} weak pool", at));
            }
        }
    }
}

pub fn check_buffer(wd: &World, at: &str) {
    if !wd.mode.get().buffer_walk {
        return;
    }
    let Some(walk) = verif::buffer_walk(1_000_000) else { return };
    bump(&wd.stats.buffer_walks);
    bump_max(&wd.stats.max_buffer_len, walk.nodes.len() as u64);
    let count = state::buffered_objects_count().unwrap_or(usize::MAX);
    if walk.truncated {
        wd.err("C11", "buffer_structure", "buffer_list_cyclic".into(), format!("the buffer list does not end ({} nodes visited; at {})", walk.nodes.len(), at));
        return;
    }
    if count != walk.nodes.len() {
        wd.err("C11", "buffered_objects_count", format!("buffered_count_{}", if count > walk.nodes.len() { "high" } else { "low" }), format!("state::buffered_objects_count() = {} but the buffer holds {} objects (at {})", count, walk.nodes.len(), at));
    }
    let m = wd.m.borrow();
    let mut seen = HashSet::new();
    for n in &walk.nodes {
        if !seen.insert(n.addr) {
            wd.err("C11", "buffer_structure", "buffer_duplicate_node".into(), format!("object at {:#x} is in the buffer twice", n.addr));
        }
        if !n.prev_ok {
            wd.err("C11", "buffer_structure", "buffer_broken_back_link".into(), format!("back link of buffered object at {:#x} is wrong", n.addr));
        }
        if n.snapshot.mark != 1 {
            wd.err("C11", "buffer_structure", format!("buffer_node_mark_{}", n.snapshot.mark), format!("buffered object at {:#x} is not marked as buffered (mark {})", n.addr, n.snapshot.mark));
        }
        if wd.epoch_boxes_known() && !m.boxes.contains_key(&n.addr) && !wd.leaked_addrs.borrow().contains_key(&n.addr) {
            wd.err("C11", "buffer_structure", "buffer_node_not_live".into(), format!("buffered object at {:#x} is not a live managed box", n.addr));
        }
    }
    // exact membership where the model is certain (statement's enter / leave rules); after a caught panic handles
    // may have leaked, so the model's holder counts (and with them the predictions) are no longer exact
    if wd.is_degraded() {
        return;
    }
    for o in &m.objs {
        if o.val == Val::Alive && o.box_live {
            match o.buffered {
                Tri::Unk => bump(&wd.stats.buffer_unknown_skipped),
                Tri::In | Tri::Out => {
                    bump(&wd.stats.buffer_exact_checks);
                    let is_in = seen.contains(&o.box_addr);
                    if is_in != (o.buffered == Tri::In) {
                        wd.err("C11", "buffered_set", format!("buffered_set_{}", if is_in { "unexpected_member" } else { "missing_member" }), format!("#{} is {} the buffer but by the enter/leave rules it should {} (at {})", o.id, if is_in { "in" } else { "not in" }, if is_in { "not be" } else { "be" }, at));
                    }
                }
            }
        }
        if o.map_live {
            match o.map_buffered {
                Tri::Unk => bump(&wd.stats.buffer_unknown_skipped),
                Tri::In | Tri::Out => {
                    bump(&wd.stats.buffer_exact_checks);
                    let is_in = seen.contains(&o.map_addr);
                    if is_in != (o.map_buffered == Tri::In) {
                        wd.err("C11", "buffered_set", format!("buffered_set_map_{}", if is_in { "unexpected_member" } else { "missing_member" }), format!("the cleaner map of #{} is {} the buffer but should {} (at {})", o.id, if is_in { "in" } else { "not in" }, if is_in { "not be" } else { "be" }, at));
                    }
                }
            }
        }
    }
}

/// Everything that is judged after a top-level operation returned (or its panic was caught).
pub fn check_qp(wd: &World, at: &str) {
    // no drop glue can be pending at top level
    {
        let mut m = wd.m.borrow_mut();
        for o in m.objs.iter_mut() {
            o.glue_pending = false;
        }
    }
    wd.releasing.borrow_mut().clear();
    let degraded = wd.is_degraded();
    // allocator ground truth
    if wd.mode.get().alloc_tracking && valloc::mode() != valloc::MODE_OFF {
        for e in valloc::take_errors() {
            use valloc::ErrKind::*;
            match e.kind {
                DoubleFree => wd.err("C03", "double_free", "allocator_double_free".into(), format!("block {:#x} ({} bytes) was released twice", e.ptr, e.other_size)),
                LayoutMismatch => wd.err("C03", "free_layout_mismatch", "allocator_layout_mismatch".into(), format!("block {:#x} allocated with (size {}, align {}) was released with (size {}, align {})", e.ptr, e.other_size, e.other_align, e.size, e.align)),
                CrossThreadFree => wd.err("C19", "cross_thread_free", "allocator_cross_thread_free".into(), format!("block {:#x} allocated by thread {} was released by thread {}", e.ptr, e.other_size, e.other_align)),
                ZeroSize => wd.err("C03", "zero_size_alloc", "allocator_zero_size".into(), format!("the crate requested a zero-sized allocation (align {})", e.align)),
                Misaligned => wd.harness_error("allocator returned a misaligned block".into()),
                WriteAfterFree => wd.err("C01", "write_after_free", "write_into_freed_block".into(), format!("freed block {:#x} ({} bytes) was written to at offset {}", e.ptr, e.size, e.other_size)),
                TableFull => wd.harness_error("allocator table full".into()),
            }
        }
        // boxes the crate still accounts for must still be allocated (a box released without notification keeps being
        // counted by allocated_bytes())
        if wd.epoch_boxes_known() {
            let m = wd.m.borrow();
            for (a, rec) in m.boxes.iter() {
                match valloc::lookup(*a) {
                    Some(b) if !b.parked => {}
                    _ => {
                        wd.err("C11", "accounted_box_not_allocated", "allocated_bytes_counts_freed_box".into(), format!("allocated_bytes() still accounts for the box at {:#x} ({} bytes) but that block has been released", a, rec.size));
                        break;
                    }
                }
            }
        }
        // boxes the crate says it released must really be gone
        let freed: Vec<(usize, u64)> = std::mem::take(&mut *wd.freed_boxes.borrow_mut());
        for (a, seq) in freed {
            if let Some(b) = valloc::lookup(a) {
                // the very same allocation (same sequence number), not a later block that received the address
                if !b.parked && b.seq == seq && !wd.m.borrow().boxes.contains_key(&a) {
                    wd.err("C11", "dealloc_not_performed", "box_accounted_free_but_still_allocated".into(), format!("the crate accounted the release of the box at {:#x} but the block is still allocated", a));
                }
            }
        }
    } else {
        wd.freed_boxes.borrow_mut().clear();
    }
    if wd.failed() {
        return;
    }
    match state::is_tracing().ok() {
        Some(false) => {}
        other => wd.err("C12", "is_tracing_outside", "is_tracing_true_at_top_level".into(), format!("state::is_tracing() = {:?} outside any collection (at {})", other, at)),
    }
    walk_roots(wd, at);
    if wd.failed() {
        return;
    }
    check_bytes(wd, at);
    check_buffer(wd, at);
    check_exec_count(wd, at);
    if wd.failed() {
        return;
    }
    // C03 promptness, C04 cascade, C09 side record lifetime: only panic-free
    if !degraded {
        let m = wd.m.borrow();
        for o in &m.objs {
            if o.val == Val::Dropped && o.box_live {
                wd.err("C03", "box_not_released", "dropped_value_box_still_allocated".into(), format!("the value of #{} was dropped but its allocation was not released before the API call returned (at {})", o.id, at));
            }
            if o.val == Val::Alive && o.box_live && o.zero_outside {
                if m.holders(o.id).1 == 0 {
                    wd.err("C04", "not_reclaimed_at_zero", "zero_handles_not_reclaimed".into(), format!("the last Cc to #{} was dropped outside a collection but the object was not dropped and deallocated before that drop returned (at {})", o.id, at));
                }
            }
            #[cfg(feature = "weak-ptrs")]
            if o.side_addr != 0 && !o.box_live && m.weak_holders(o.id).1 == 0 && matches!(o.val, Val::Dropped | Val::Unwrapped | Val::Vanished) {
                wd.err("C09", "side_record_leaked", "side_record_not_released".into(), format!("the side record of #{} is still allocated although its box and all its Weak pointers are gone (at {})", o.id, at));
            }
        }
    }
    // a new_cyclic whose closure panicked: "all memory is released" also holds after the panic (C14), i.e. the side
    // record goes when the last saved clone of the Weak goes
    #[cfg(feature = "weak-ptrs")]
    if degraded {
        let m = wd.m.borrow();
        for o in &m.objs {
            if o.val == Val::Vanished && o.side_addr != 0 && !o.box_live && m.weak_holders(o.id).1 == 0 && m.sides.contains_key(&o.side_addr) {
                wd.err("C14", "cyclic_side_record_leaked", "cyclic_side_record_live_after_last_weak".into(), format!("the side record of #{} (new_cyclic closure panicked) is still allocated although every clone of its Weak is gone (at {})", o.id, at));
            }
        }
    }
    if wd.mode.get().state_hash {
        state_hash(wd);
    }
    if wd.feat_on.get() {
        qp_features(wd);
    }
}

/// State-shape features of the reachable heap (evolve generator feedback; coverage only, never a verdict):
/// per object a class built from its hidden state and its model role, per edge the classes of both ends.
fn qp_features(wd: &World) {
    let Ok(m) = wd.m.try_borrow() else { return };
    fn class(c: &Cc<Node>, m: &Model) -> u64 {
        let sn = verif::object_snapshot(c);
        let mut k = (sn.counter.min(3) as u64) | (sn.tracing_counter.min(3) as u64) << 2 | (sn.mark as u64) << 4 | (sn.finalized as u64) << 6 | (sn.has_side_record as u64) << 7;
        if let Some(o) = m.obj(c.id) {
            let (wa, wb) = m.weak_holders(c.id);
            k |= ((wa + wb).min(2) as u64) << 8;
            k |= (o.actions.iter().filter(|a| !a.done).count().min(2) as u64) << 10;
            k |= (o.resurrected as u64) << 12 | (o.cyclic as u64) << 13 | (o.born_in_finalizer as u64) << 14 | ((!o.spec.fin.is_empty()) as u64) << 15;
            k |= (match o.buffered { Tri::In => 1u64, Tri::Out => 0, Tri::Unk => 2 }) << 16;
        }
        k
    }
    fn visit(n: &Node, kn: u64, m: &Model, seen: &mut HashSet<u32>, wd: &World, depth: usize) {
        if n.canary_state() != CanaryState::Good || !seen.insert(n.id) || depth > 12 {
            return;
        }
        for (si, s) in n.t.iter().chain(n.h.iter()).chain(std::iter::once(&*n.md)).enumerate() {
            let Ok(b) = s.try_borrow() else { continue };
            if let Some(c) = b.as_ref() {
                let kc = class(c, m);
                wd.feature_flat(FT_OBJ, kc, 0);
                wd.feature_flat(FT_EDGE, kn & 0xFF, (kc & 0xFF) | (si as u64) << 8 | ((c.id == n.id) as u64) << 12);
                let p: *const Node = &**c;
                visit(unsafe { &*p }, kc, m, seen, wd, depth + 1);
            }
        }
    }
    let mut seen = HashSet::new();
    for c in wd.r.iter().chain(wd.g.iter()) {
        let Ok(b) = c.try_borrow() else { continue };
        if let Some(cc) = b.as_ref() {
            let k = class(cc, &m);
            wd.feature_flat(FT_OBJ, k, 1);
            let p: *const Node = &**cc;
            visit(unsafe { &*p }, k, &m, &mut seen, wd, 0);
        }
    }
    if let Some(b) = verif::buffer_walk(16) {
        let mut code = b.nodes.len().min(5) as u64;
        for n in b.nodes.iter().take(4) {
            code = code << 6 | (n.snapshot.counter.min(3) as u64) | (n.snapshot.tracing_counter.min(3) as u64) << 2 | (n.snapshot.finalized as u64) << 4 | (n.snapshot.has_side_record as u64) << 5;
        }
        wd.feature_flat(FT_BUF, code, 0);
    }
}

thread_local! {
    static STATES: std::cell::RefCell<HashSet<u64>> = std::cell::RefCell::new(HashSet::new());
}

pub fn distinct_states() -> usize {
    STATES.with(|s| s.borrow().len())
}

/// Abstract state of the whole heap as far as the hooks can see it (coverage / novelty pruning only).
pub fn current_state_hash(wd: &World) -> u64 {
    let mut h = vcommon::rng::Fnv::new();
    let Ok(m) = wd.m.try_borrow() else { return 0 };
    m.shape_hash(&mut h);
    let mut seen = HashSet::new();
    fn visit(n: &Node, m: &Model, seen: &mut HashSet<u32>, h: &mut vcommon::rng::Fnv) {
        if n.canary_state() != CanaryState::Good || !seen.insert(n.id) {
            return;
        }
        for s in n.t.iter().chain(n.h.iter()).chain(std::iter::once(&*n.md)) {
            if let Some(c) = s.borrow().as_ref() {
                let sn = verif::object_snapshot(c);
                h.u64(c.id as u64);
                h.u64(sn.counter as u64 | (sn.tracing_counter as u64) << 16 | (sn.mark as u64) << 32 | (sn.finalized as u64) << 40 | (sn.has_side_record as u64) << 41);
                let p: *const Node = &**c;
                visit(unsafe { &*p }, m, seen, h);
            }
        }
    }
    for c in wd.r.iter().chain(wd.g.iter()) {
        if let Some(cc) = c.borrow().as_ref() {
            let s = verif::object_snapshot(cc);
            h.u64(cc.id as u64);
            h.u64(s.counter as u64 | (s.tracing_counter as u64) << 16 | (s.mark as u64) << 32 | (s.finalized as u64) << 40 | (s.has_side_record as u64) << 41);
            let p: *const Node = &**cc;
            visit(unsafe { &*p }, &m, &mut seen, &mut h);
        }
    }
    if let Some(b) = verif::buffer_walk(64) {
        for n in &b.nodes {
            let id = m.boxes.get(&n.addr).map(|r| match r.owner {
                BoxOwner::Node(i) => i as u64,
                BoxOwner::Map(i) => 1000 + i as u64,
                BoxOwner::Unknown => 9999,
            });
            h.u64(id.unwrap_or(u64::MAX));
            h.u64(n.snapshot.tracing_counter as u64 | (n.snapshot.counter as u64) << 16 | (n.snapshot.finalized as u64) << 40);
        }
    }
    // weak registers
    for (i, t) in m.wr.iter().enumerate() {
        h.u64(i as u64);
        h.u64(match t {
            WT::None => 0,
            WT::Dangling => 1,
            WT::To(x) => 2 + *x as u64,
        });
    }
    h.finish()
}

fn state_hash(wd: &World) {
    let mut h = vcommon::rng::Fnv::new();
    let m = wd.m.borrow();
    m.shape_hash(&mut h);
    // hidden state of every object the program can reach (hooks; coverage only, never a verdict)
    for c in wd.r.iter().chain(wd.g.iter()) {
        if let Some(cc) = c.borrow().as_ref() {
            let s = verif::object_snapshot(cc);
            h.u64(s.counter as u64 | (s.tracing_counter as u64) << 16 | (s.mark as u64) << 32 | (s.finalized as u64) << 40 | (s.has_side_record as u64) << 41);
        }
    }
    if let Some(b) = verif::buffer_walk(64) {
        for n in &b.nodes {
            let id = m.boxes.get(&n.addr).map(|r| match r.owner {
                BoxOwner::Node(i) => i as u64,
                BoxOwner::Map(i) => 1000 + i as u64,
                BoxOwner::Unknown => 9999,
            });
            h.u64(id.unwrap_or(u64::MAX));
            h.u64(n.snapshot.tracing_counter as u64);
        }
    }
    let v = h.finish();
    STATES.with(|s| {
        let mut s = s.borrow_mut();
        if s.len() < 2_000_000 {
            s.insert(v);
        }
    });
}

// ---------------------------------------------------------------------------------------------------------------
// C02 / C06 precision

pub fn after_collect_quiet(wd: &World) {
    if wd.is_degraded() || wd.fault_fired.get() > 0 {
        return;
    }
    bump(&wd.stats.c02_checks);
    if wd.in_callback() {
        bump(&wd.stats.c02_nested_checks);
    }
    let m = wd.m.borrow();
    let releasing: Vec<u32> = wd.releasing.borrow().clone();
    let remain = m.remain_with(&releasing);
    let reach = m.reach();
    let live: HashSet<u32> = m.objs.iter().filter(|o| o.val == Val::Alive && o.box_live).map(|o| o.id).collect();
    let prop = if wd.had_resurrection.get() { "C06" } else { "C02" };
    let mut not_reclaimed: Vec<u32> = live.difference(&remain).cloned().collect();
    not_reclaimed.sort();
    if !not_reclaimed.is_empty() {
        let shape: Vec<String> = not_reclaimed.iter().take(4).map(|id| {
            let o = m.obj(*id).unwrap();
            format!("#{}(t={:?},h={:?},holders={:?},fin={},armed={})", id, o.t, o.h, m.holders(*id), o.fin_count, o.armed)
        }).collect();
        wd.err(prop, "garbage_not_reclaimed", format!("garbage_left:{}{}", if wd.had_resurrection.get() { "after_resurrection" } else { "plain" }, if wd.in_callback() { ":requested_from_callback" } else { "" }), format!("after collect_cycles() was repeated until quiet, unreachable objects {:?} (not pinned through any untraced field of a remaining object) are still allocated: {}", not_reclaimed, shape.join(" ")));
    }
    let pinned = remain.iter().filter(|id| !reach.contains(id)).count() as u64;
    wd.stats.pinned_garbage_left.set(wd.stats.pinned_garbage_left.get() + pinned);
    // "... dropped and deallocated": at top level (no destructor in flight) a value that has been dropped must have had its
    // box released by now (the same observation is C03's promptness clause at the quiescent point)
    if !wd.in_callback() {
        let undead: Vec<u32> = m.objs.iter().filter(|o| o.val == Val::Dropped && o.box_live && !o.glue_pending).map(|o| o.id).collect();
        if !undead.is_empty() {
            wd.err(prop, "garbage_not_deallocated", "dropped_but_box_live".into(), format!("after collect_cycles() was repeated until quiet, the values of {:?} have been dropped but their allocations are still live (allocated_bytes() keeps counting them)", undead));
        }
    }
    let mut h = vcommon::rng::Fnv::new();
    let mut dropped: Vec<u32> = m.objs.iter().filter(|o| o.val == Val::Dropped).map(|o| o.id).collect();
    dropped.sort();
    for d in dropped {
        h.u64(d as u64);
    }
    if !wd.in_callback() {
        wd.quiet_digests.borrow_mut().push(h.finish());
    }
    drop(m);
    check_bytes(wd, "after collect until quiet");
}

impl World {
    /// Box events of this thread are observed from the start, so every live box is known.
    pub fn epoch_boxes_known(&self) -> bool {
        true
    }
}
