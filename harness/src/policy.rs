//! C15 workload: allocate / release payloads of many sizes under changing configurations, steering the allocated
//! byte count and the buffered-object count to the exact trigger boundaries (DESIGN.md section 4, C15).
//! Every creation is judged by oracle::pre_new / post_new (trigger decision) and every collection by
//! oracle::policy_after_collection (threshold post-conditions).
use crate::oracle;
use crate::ops::{BUFFERED, PERCENTS};
use crate::world::*;
use rust_cc::*;
use std::cell::RefCell;
use vcommon::report::Report;
use vcommon::Rng;

pub struct Ring {
    next: RefCell<Option<Cc<Ring>>>,
    other: RefCell<Option<Cc<Ring>>>,
    _pad: [u8; 40],
}
unsafe impl Trace for Ring {
    fn trace(&self, ctx: &mut Context<'_>) {
        self.next.trace(ctx);
        self.other.trace(ctx);
    }
}
impl Finalize for Ring {}

/// A held payload of some size (type-erased so that one Vec can hold all sizes).
#[allow(dead_code)]
enum Held {
    B0(Cc<[u8; 0]>),
    B8(Cc<[u8; 8]>),
    B16(Cc<[u8; 16]>),
    B24(Cc<[u8; 24]>),
    B40(Cc<[u8; 40]>),
    B64(Cc<[u8; 64]>),
    B104(Cc<[u8; 104]>),
    B200(Cc<[u8; 200]>),
    B512(Cc<[u8; 512]>),
    B1000(Cc<[u8; 1000]>),
    B4096(Cc<[u8; 4096]>),
    R(Cc<Ring>),
}

const SIZES: [usize; 11] = [0, 8, 16, 24, 40, 64, 104, 200, 512, 1000, 4096];

fn make(i: usize) -> Held {
    match i {
        0 => Held::B0(Cc::new([0u8; 0])),
        1 => Held::B8(Cc::new([1u8; 8])),
        2 => Held::B16(Cc::new([2u8; 16])),
        3 => Held::B24(Cc::new([3u8; 24])),
        4 => Held::B40(Cc::new([4u8; 40])),
        5 => Held::B64(Cc::new([5u8; 64])),
        6 => Held::B104(Cc::new([6u8; 104])),
        7 => Held::B200(Cc::new([7u8; 200])),
        8 => Held::B512(Cc::new([8u8; 512])),
        9 => Held::B1000(Cc::new([9u8; 1000])),
        _ => Held::B4096(Cc::new([10u8; 4096])),
    }
}

struct P {
    held: Vec<Held>,
    /// handles whose object also has a second handle in `held2` (dropping one buffers the object)
    pairs: Vec<(Cc<Ring>, Option<Cc<Ring>>)>,
    box_size: [usize; 11],
    rep_boundary: [u64; 6],
}

/// Creation through the judged path.
fn judged_new(p: &mut P, i: usize) {
    let wd = w();
    let pre = oracle::pre_new(wd);
    let _g = FrameGuard::api(Frame::ApiNew);
    let before = state::allocated_bytes().unwrap_or(0);
    let h = make(i);
    drop(_g);
    oracle::post_new(wd, &pre, true, "Cc::new");
    let after = state::allocated_bytes().unwrap_or(0);
    if p.box_size[i] == 0 && after > before && !pre.predicted.unwrap_or(false) {
        p.box_size[i] = after - before;
    }
    p.held.push(h);
}

fn set_config(rng: &mut Rng) {
    #[cfg(feature = "auto-collect")]
    {
        let auto = rng.chance(9, 10);
        let pc = PERCENTS[rng.idx(PERCENTS.len())];
        let b = BUFFERED[rng.idx(BUFFERED.len())];
        let _ = rust_cc::config::config(|c| {
            c.set_auto_collect(auto);
            c.set_adjustment_percent(pc);
            c.set_buffered_objects_threshold(std::num::NonZeroUsize::new(b));
        });
    }
    #[cfg(not(feature = "auto-collect"))]
    {
        let _ = (rng, PERCENTS, BUFFERED);
    }
}

fn explicit_collect() {
    let wd = w();
    oracle::collection_starting(wd, true);
    {
        let _g = FrameGuard::api(Frame::ApiCollect);
        collect_cycles();
    }
    wd.in_collection.set(false);
    oracle::collection_finished(wd, true);
    oracle::check_exec_count(wd, "collect_cycles");
    oracle::policy_after_collection(wd, 0, "collect_cycles");
}

#[cfg(feature = "auto-collect")]
fn steer(p: &mut P, rng: &mut Rng) {
    use rust_cc::verif;
    // bytes boundary: bring allocated to threshold - 8, threshold or threshold + 8 with filler payloads, then create
    let Some(th) = verif::bytes_threshold() else { return };
    let allocated = state::allocated_bytes().unwrap_or(0);
    let target = match rng.idx(3) {
        0 => th.saturating_sub(8),
        1 => th,
        _ => th + 8,
    };
    if rng.chance(1, 2) {
        if allocated > target || target - allocated > 6000 {
            // too far above: release some payloads first
            while state::allocated_bytes().unwrap_or(0) > target && !p.held.is_empty() {
                let k = rng.idx(p.held.len());
                let _g = FrameGuard::api(Frame::ApiDrop);
                p.held.swap_remove(k);
            }
        }
        // fill greedily with known box sizes, never crossing the target (crossing would trigger before we are there)
        for _ in 0..64 {
            let a = state::allocated_bytes().unwrap_or(0);
            if a >= target {
                break;
            }
            let gap = target - a;
            let mut best = None;
            for (i, s) in p.box_size.iter().enumerate() {
                if *s != 0 && *s <= gap && best.map_or(true, |b: usize| p.box_size[b] < *s) {
                    best = Some(i);
                }
            }
            let Some(i) = best else { break };
            judged_new(p, i);
        }
        let a = state::allocated_bytes().unwrap_or(0);
        if a == th {
            p.rep_boundary[0] += 1;
        } else if a == th + 8 || a == th + 1 {
            p.rep_boundary[1] += 1;
        } else if a + 8 == th {
            p.rep_boundary[2] += 1;
        }
        judged_new(p, rng.idx(4));
    } else {
        // buffered boundary: make exactly bt or bt + 1 objects buffered
        let Ok(bt) = rust_cc::config::config(|c| c.buffered_objects_threshold().map_or(0, |b| b.get())) else { return };
        if bt == 0 {
            return;
        }
        let want = bt + rng.idx(2);
        let mut guard = 0;
        while state::buffered_objects_count().unwrap_or(0) < want && guard < 32 {
            guard += 1;
            // a Ring held twice; dropping one handle buffers it
            let wd = w();
            let pre = oracle::pre_new(wd);
            let r = {
                let _g = FrameGuard::api(Frame::ApiNew);
                Cc::new(Ring { next: RefCell::new(None), other: RefCell::new(None), _pad: [0; 40] })
            };
            oracle::post_new(wd, &pre, true, "Cc::new");
            let second = r.clone();
            {
                let _g = FrameGuard::api(Frame::ApiDrop);
                drop(second);
            }
            p.pairs.push((r, None));
        }
        let b = state::buffered_objects_count().unwrap_or(0);
        if b == bt {
            p.rep_boundary[3] += 1;
        } else if b == bt + 1 {
            p.rep_boundary[4] += 1;
        }
        judged_new(p, rng.idx(4));
    }
}

pub fn run(rep: &mut Report, seed: u64, rounds: u64, steps: u64, props: &std::collections::HashSet<String>, base_args: &[String]) {
    let wd = w();
    for round in 0..rounds {
        let mut rng = Rng::derive(seed, round);
        wd.epoch.set(wd.epoch.get() + 1);
        *wd.m.borrow_mut() = crate::model::Model::new();
        wd.errs.borrow_mut().clear();
        wd.stop_now.set(false);
        wd.in_collection.set(false);
        wd.degraded.set(false);
        wd.fault_fired.set(0);
        wd.new_in_flight.set(0);
        wd.base_bytes.set(state::allocated_bytes().unwrap_or(0));
        wd.expected_exec.set(state::executions_count().unwrap_or(0) as u64);
        #[cfg(feature = "auto-collect")]
        if wd.init_threshold.get() == 0 {
            wd.init_threshold.set(rust_cc::verif::bytes_threshold().unwrap_or(0));
        }
        let mut p = P { held: Vec::new(), pairs: Vec::new(), box_size: [0; 11], rep_boundary: [0; 6] };
        let mut grew = false;
        let mut shrank = false;
        #[cfg(feature = "auto-collect")]
        let mut last_th = rust_cc::verif::bytes_threshold().unwrap_or(0);
        set_config(&mut rng);
        for _ in 0..steps {
            match rng.idx(20) {
                0..=6 => judged_new(&mut p, rng.idx(SIZES.len())),
                7..=9 => {
                    // release a burst
                    for _ in 0..1 + rng.idx(6) {
                        if p.held.is_empty() {
                            break;
                        }
                        let k = rng.idx(p.held.len());
                        let _g = FrameGuard::api(Frame::ApiDrop);
                        p.held.swap_remove(k);
                    }
                }
                10 | 11 => {
                    // garbage cycles of varying volume
                    for _ in 0..1 + rng.idx(5) {
                        let wd = w();
                        let pre = oracle::pre_new(wd);
                        let a = {
                            let _g = FrameGuard::api(Frame::ApiNew);
                            Cc::new(Ring { next: RefCell::new(None), other: RefCell::new(None), _pad: [0; 40] })
                        };
                        oracle::post_new(wd, &pre, true, "Cc::new");
                        *a.next.borrow_mut() = Some(a.clone());
                        let _g = FrameGuard::api(Frame::ApiDrop);
                        drop(a);
                    }
                }
                15 => {
                    // garbage that owns second handles to live shared objects: its destructors release them inside the
                    // collection, so the shared objects are buffered when the collection ends (a collection that leaves
                    // more than the buffered threshold behind: the creation that started it must still start only one)
                    let k = 2 + rng.idx(7);
                    for _ in 0..k {
                        let wd = w();
                        let pre = oracle::pre_new(wd);
                        let shared = {
                            let _g = FrameGuard::api(Frame::ApiNew);
                            Cc::new(Ring { next: RefCell::new(None), other: RefCell::new(None), _pad: [0; 40] })
                        };
                        oracle::post_new(wd, &pre, true, "Cc::new");
                        let pre = oracle::pre_new(wd);
                        let g = {
                            let _g = FrameGuard::api(Frame::ApiNew);
                            Cc::new(Ring { next: RefCell::new(None), other: RefCell::new(None), _pad: [0; 40] })
                        };
                        oracle::post_new(wd, &pre, true, "Cc::new");
                        *g.next.borrow_mut() = Some(g.clone());
                        *g.other.borrow_mut() = Some(shared.clone());
                        p.pairs.push((shared, None));
                        let _g = FrameGuard::api(Frame::ApiDrop);
                        drop(g);
                    }
                }
                12 => set_config(&mut rng),
                13 => explicit_collect(),
                14 => {
                    let _g = FrameGuard::api(Frame::ApiDrop);
                    p.pairs.clear();
                }
                _ => {
                    #[cfg(feature = "auto-collect")]
                    steer(&mut p, &mut rng);
                }
            }
            #[cfg(feature = "auto-collect")]
            {
                let th = rust_cc::verif::bytes_threshold().unwrap_or(0);
                if th > last_th {
                    grew = true;
                }
                if th < last_th {
                    shrank = true;
                }
                last_th = th;
            }
            oracle::check_exec_count(wd, "policy step");
            if wd.failed() {
                break;
            }
        }
        rep.evaluations += 1;
        rep.count("policy_rounds", 1);
        rep.count("decisions_at_bytes_eq_threshold", p.rep_boundary[0]);
        rep.count("decisions_at_bytes_just_above_threshold", p.rep_boundary[1]);
        rep.count("decisions_at_bytes_just_below_threshold", p.rep_boundary[2]);
        rep.count("decisions_at_buffered_eq_threshold", p.rep_boundary[3]);
        rep.count("decisions_at_buffered_eq_threshold_plus1", p.rep_boundary[4]);
        if grew {
            rep.count("rounds_threshold_grew", 1);
        }
        if shrank {
            rep.count("rounds_threshold_shrank", 1);
        }
        let boundary: u64 = p.rep_boundary.iter().sum();
        if let Some(v) = wd.errs.borrow().first() {
            let mut replay: Vec<String> = base_args.to_vec();
            replay.extend(["--rounds".to_string(), (round + 1).to_string(), "--steps".to_string(), steps.to_string(), "--verbose".to_string()]);
            let sig = format!("{}:{}:{}", v.prop, v.oracle, v.sig);
            if props.contains(v.prop) {
                rep.viol(v.prop, v.oracle, &sig, &format!("{} [policy workload, round {}]", v.detail, round), &replay);
            } else {
                rep.count("foreign_oracle_hits", 1);
            }
        } else if boundary >= 1 && grew && shrank {
            let mut h = vcommon::rng::Fnv::new();
            h.u64(seed);
            h.u64(round);
            h.u64(steps);
            rep.nontrivial(h.finish());
            if rep.samples.len() < 2 {
                rep.sample(vcommon::Json::obj().set("workload", "policy").set("seed", seed).set("round", round).set("steps", steps)
                    .set("boundary_decisions", p.rep_boundary.iter().map(|x| vcommon::Json::UInt(*x)).collect::<Vec<_>>())
                    .set("note", "boundary_decisions = [bytes==threshold, bytes just above, bytes just below, buffered==threshold, buffered==threshold+1, -]"));
            }
        }
        // release everything
        {
            let _g = FrameGuard::api(Frame::ApiDrop);
            p.held.clear();
            p.pairs.clear();
        }
        #[cfg(feature = "auto-collect")]
        {
            let _ = rust_cc::config::config(|c| c.set_auto_collect(false));
        }
        collect_cycles();
        wd.errs.borrow_mut().clear();
        wd.stop_now.set(false);
    }
}
