//! The operation alphabet of a "program" (DESIGN.md section 2.5). The same `Act`s are executed at top level and
//! from callback scripts (finalizers, cleaning actions, new_cyclic closures), by the same interpreter.

pub const NT: usize = 2; // traced Cc slots per node
/// traced slots in the model: the NT ordinary ones plus one slot (index NT) that lives in a ManuallyDrop field: traced by its
/// owner, never released by the owner's drop glue (the crate implements Trace for ManuallyDrop<T>)
pub const NTM: usize = NT + 1;
pub const NH: usize = 1; // hidden (untraced) Cc slots per node
pub const NW: usize = 2; // Weak slots per node
pub const NR: usize = 5; // program registers (locals)
pub const NG: usize = 2; // globals (what finalizers resurrect into)
pub const NWR: usize = 3; // weak registers
pub const NC: usize = 3; // cleanable registers
pub const MAX_ACTIONS: usize = 4; // cleaning actions per cleaner

/// A place that holds an `Option<Cc<Node>>` and can be read.
#[derive(Clone, Copy, Debug, PartialEq, Eq, Hash)]
pub enum Src {
    R(u8),
    G(u8),
    /// traced slot i of the object whose callback is running
    MeT(u8),
    /// hidden slot i of the object whose callback is running
    MeH(u8),
    /// the Cc captured by the running cleaning action
    Cap,
}

/// An object designated through a handle (owner of slots / target of an operation).
#[derive(Clone, Copy, Debug, PartialEq, Eq, Hash)]
pub enum Own {
    R(u8),
    G(u8),
    /// the object whose finalizer is running
    Me,
}

/// A place an `Option<Cc<Node>>` can be written to.
#[derive(Clone, Copy, Debug, PartialEq, Eq, Hash)]
pub enum Dst {
    R(u8),
    G(u8),
    /// slot of an object: (owner, hidden?, index)
    Slot(Own, bool, u8),
    /// drop the value immediately
    Discard,
}

/// A place holding an `Option<Weak<Node>>`.
#[derive(Clone, Copy, Debug, PartialEq, Eq, Hash)]
pub enum WLoc {
    WR(u8),
    /// weak slot i of an object
    Of(Own, u8),
    /// the Weak captured by the running cleaning action
    Cap,
    /// the Weak handed to the running new_cyclic closure
    Cyc,
}

#[derive(Clone, Debug, PartialEq, Eq, Hash, Default)]
pub struct Spec {
    /// finalizer script
    pub fin: Vec<Act>,
    /// what the payload's Drop impl does (restricted by the Trace contract)
    pub drp: Vec<DAct>,
}

/// Things a payload `Drop` impl may do without breaking the `Trace` contract.
#[derive(Clone, Copy, Debug, PartialEq, Eq, Hash)]
pub enum DAct {
    /// upgrade own weak slot i: must yield None whenever the target is being destroyed (only judged then)
    UpgradeW(u8),
    /// collect_cycles() from a destructor
    Collect,
    /// read the state::* queries
    Query,
}

#[derive(Clone, Debug, PartialEq, Eq, Hash)]
pub struct ActionSpec {
    /// capture a clone of this handle (None = capture nothing)
    pub cap: Option<Src>,
    /// capture a clone of this weak
    pub wcap: Option<WLoc>,
    pub script: Vec<Act>,
}

#[derive(Clone, Debug, PartialEq, Eq, Hash)]
pub enum Act {
    New { dst: Dst, spec: Box<Spec> },
    /// new_cyclic: the closure runs `script` (with WLoc::Cyc available), then builds the node; `keep` = weak slots of
    /// the new node that receive a clone of the provided Weak
    NewCyclic { dst: Dst, spec: Box<Spec>, script: Vec<Act>, keep: u8 },
    Clone { src: Src, dst: Dst },
    /// move without clone/drop of the moved handle
    Take { src: Src, dst: Dst },
    /// overwrite with None
    Drop { dst: Dst },
    MarkAlive { src: Src },
    Downgrade { src: Src, dst: WLoc },
    Upgrade { src: WLoc, dst: Dst },
    WClone { src: WLoc, dst: WLoc },
    WDrop { dst: WLoc },
    WNew { dst: WLoc },
    TryUnwrap { reg: Dst },
    FinalizeAgain { reg: Dst },
    Collect,
    /// collect_cycles() called from inside a `config(|c| ..)` closure (top level; elsewhere a plain collect_cycles()): the
    /// collection itself must run as usual (what the crate cannot do there is adjust the threshold: not judged, section 5)
    CollectInConfig,
    /// collect until a call runs no finalizer and no destructor; then the C02 oracle
    CollectQuiet,
    Register { own: Own, action: Box<ActionSpec>, dst: u8 },
    Clean { c: u8 },
    CDrop { c: u8 },
    /// (auto_collect, adjustment percent index, buffered threshold)
    Config { auto: bool, percent: u8, buffered: u8 },
    /// state::* queries and count queries (the oracles run at every quiescent point anyway; inside callbacks this
    /// runs the local oracle)
    Query,
    /// Top level only: acquire up to `n` more handles to the object at `src` into the program's handle pool, by `clone` or
    /// (with `via`) by upgrading that Weak; stops at the first refusal (the documented panic at the 16382 limit).
    Bulk { src: Src, n: u16, via: Option<WLoc> },
    /// release `k` handles of the pool (most recently acquired first)
    BulkDrop { k: u16 },
    /// acquire up to `n` more Weak pointers to the object at `src` into the weak pool (downgrade, or Weak::clone of `via`)
    BulkWeak { src: Src, n: u16, via: Option<WLoc> },
    BulkWeakDrop { k: u16 },
}

pub const STRONG_LIMIT: u32 = 16382;
pub const WEAK_LIMIT: u32 = 32767;

impl Act {
    pub fn kind(&self) -> &'static str {
        match self {
            Act::New { .. } => "new",
            Act::NewCyclic { .. } => "new_cyclic",
            Act::Clone { .. } => "clone",
            Act::Take { .. } => "take",
            Act::Drop { .. } => "drop",
            Act::MarkAlive { .. } => "mark_alive",
            Act::Downgrade { .. } => "downgrade",
            Act::Upgrade { .. } => "upgrade",
            Act::WClone { .. } => "wclone",
            Act::WDrop { .. } => "wdrop",
            Act::WNew { .. } => "wnew",
            Act::TryUnwrap { .. } => "try_unwrap",
            Act::FinalizeAgain { .. } => "finalize_again",
            Act::Collect => "collect",
            Act::CollectInConfig => "collect_in_config",
            Act::CollectQuiet => "collect_quiet",
            Act::Register { .. } => "register",
            Act::Clean { .. } => "clean",
            Act::CDrop { .. } => "cdrop",
            Act::Config { .. } => "config",
            Act::Query => "query",
            Act::Bulk { .. } => "bulk",
            Act::BulkDrop { .. } => "bulk_drop",
            Act::BulkWeak { .. } => "bulk_weak",
            Act::BulkWeakDrop { .. } => "bulk_weak_drop",
        }
    }

    pub fn is_weak_op(&self) -> bool {
        matches!(self, Act::Downgrade { .. } | Act::Upgrade { .. } | Act::WClone { .. } | Act::WDrop { .. } | Act::WNew { .. } | Act::BulkWeak { .. } | Act::BulkWeakDrop { .. })
    }
}

pub const PERCENTS: [f64; 6] = [0.0, 1e-9, 0.1, 0.5, 0.9, 1.0];
pub const BUFFERED: [usize; 5] = [0, 1, 2, 3, 6]; // 0 = None

/// Callback kinds (also the fault kinds).
#[derive(Clone, Copy, Debug, PartialEq, Eq, Hash, PartialOrd, Ord)]
#[repr(u8)]
pub enum Cb {
    TracePre = 0,
    TraceMid = 1,
    TracePost = 2,
    Finalize = 3,
    Drop = 4,
    Action = 5,
    Closure = 6,
}
pub const N_CB: usize = 7;
pub const CB_ALL: [Cb; N_CB] = [Cb::TracePre, Cb::TraceMid, Cb::TracePost, Cb::Finalize, Cb::Drop, Cb::Action, Cb::Closure];

impl Cb {
    pub fn name(self) -> &'static str {
        match self {
            Cb::TracePre => "trace_pre",
            Cb::TraceMid => "trace_mid",
            Cb::TracePost => "trace_post",
            Cb::Finalize => "finalize",
            Cb::Drop => "drop",
            Cb::Action => "action",
            Cb::Closure => "closure",
        }
    }
    pub fn from_u8(x: u8) -> Option<Cb> {
        CB_ALL.get(x as usize).copied()
    }
}

#[derive(Clone, Debug, Default)]
pub struct History {
    pub ops: Vec<Act>,
    /// generator label (for samples / replay)
    pub label: String,
}

impl History {
    pub fn hash(&self) -> u64 {
        let mut h = vcommon::rng::Fnv::new();
        for op in &self.ops {
            h.str(&format!("{:?}", op));
        }
        h.finish()
    }
    pub fn render(&self) -> Vec<String> {
        self.ops.iter().map(|o| format!("{:?}", o)).collect()
    }
}
