//! Runs histories (with or without injected faults), attributes oracle hits to properties, reports.
use crate::gen::{Gen, Profile};
use crate::interp::{exec, Cx};
use crate::model::*;
use crate::ops::*;
use crate::oracle;
use crate::world::*;
use rust_cc::*;
use std::collections::HashSet;
use vcommon::alloc as valloc;
use vcommon::report::{Args, Report};
use vcommon::{Json, Rng};

pub struct RunCfg {
    pub mode: String,
    pub props: HashSet<String>,
    pub verbose: bool,
    pub leak_check: bool,
}

#[derive(Default, Clone)]
pub struct Outcome {
    pub viols: Vec<Viol>,
    pub cb_counts: [u64; N_CB],
    pub fired: u32,
    pub nontrivial: bool,
    pub harness_errors: Vec<String>,
    pub steps_done: usize,
    pub digests: Vec<u64>,
    pub new_cyclic_windows: Vec<(usize, [u64; N_CB], [u64; N_CB])>,
    /// abstract state after the last operation (before the epilogue)
    pub state_hash: u64,
}

#[derive(Clone, Copy, Default)]
struct Snap {
    collections: u64,
    by_coll: u64,
    by_rc: u64,
    sides: u64,
    cascade: u64,
    resurrections: u64,
    up_some: u64,
    up_none: u64,
    up_cb: u64,
    side_outlived: u64,
    weak_after_death: u64,
    cleaner_drops: u64,
    actions: u64,
    leave: [u64; 6],
    nested_noop: u64,
    nested_real: u64,
    unwrap_ok: u64,
    cyclic: u64,
    decisions: u64,
    fired: u64,
    fault_coll: u64,
}

fn snap(wd: &World) -> Snap {
    let s = &wd.stats;
    Snap {
        collections: s.collections.get(),
        by_coll: s.reclaimed_by_collector.get(),
        by_rc: s.reclaimed_by_rc.get(),
        sides: s.side_records.get(),
        cascade: s.cascade_checks.get(),
        resurrections: s.resurrections.get(),
        up_some: s.upgrades_some.get(),
        up_none: s.upgrades_none.get(),
        up_cb: s.upgrade_sites[1].get() + s.upgrade_sites[2].get() + s.upgrade_sites[3].get(),
        side_outlived: s.side_outlived_box.get(),
        weak_after_death: s.weak_queries_after_death.get(),
        cleaner_drops: s.cleaner_drops.get(),
        actions: s.actions_run.get(),
        leave: [s.leave_ops[0].get(), s.leave_ops[1].get(), s.leave_ops[2].get(), s.leave_ops[3].get(), s.leave_ops[4].get(), s.leave_ops[5].get()],
        nested_noop: s.nested_noop_collects.get(),
        nested_real: s.nested_real_collects.get(),
        unwrap_ok: s.try_unwrap_ok.get(),
        cyclic: s.cyclic_ok.get() + s.cyclic_panicked.get(),
        decisions: s.trigger_decisions.get(),
        fired: s.trigger_fired.get(),
        fault_coll: s.fault_unwound_collector.get(),
    }
}

fn nontrivial(mode: &str, a: &Snap, b: &Snap, hist_max_fin: u64, hist_max_buf: u64, mutated: bool) -> bool {
    let d = |x: u64, y: u64| y - x;
    let by_coll = d(a.by_coll, b.by_coll);
    let by_rc = d(a.by_rc, b.by_rc);
    match mode {
        "C01" | "C19" => d(a.collections, b.collections) >= 1 && by_coll >= 1,
        "C02" => by_coll >= 2,
        "C03" => by_coll >= 1 && by_rc >= 1 && (cfg!(not(feature = "weak-ptrs")) || d(a.sides, b.sides) >= 1),
        "C04" => d(a.cascade, b.cascade) >= 1 && by_rc >= 2,
        "C05" => hist_max_fin >= 2 && mutated,
        "C06" => d(a.resurrections, b.resurrections) >= 1 && by_coll >= 1,
        "C07" => d(a.fault_coll, b.fault_coll) >= 1 && by_coll >= 1,
        "C08" | "C08diff" => d(a.up_some, b.up_some) >= 1 && d(a.up_none, b.up_none) >= 1 && d(a.up_cb, b.up_cb) >= 1,
        "C09" => d(a.side_outlived, b.side_outlived) >= 1 && d(a.weak_after_death, b.weak_after_death) >= 1,
        "C10" => d(a.cleaner_drops, b.cleaner_drops) >= 1 && d(a.actions, b.actions) >= 2,
        "C11" => hist_max_buf >= 3 && (0..6).filter(|i| b.leave[*i] > a.leave[*i]).count() >= 3,
        "C12" => d(a.nested_noop, b.nested_noop) >= 1 || d(a.nested_real, b.nested_real) >= 1,
        "C13" => d(a.unwrap_ok, b.unwrap_ok) >= 1,
        "C14" => d(a.cyclic, b.cyclic) >= 1,
        "C15" => d(a.decisions, b.decisions) >= 1 && d(a.fired, b.fired) >= 1,
        _ => true,
    }
}

pub use crate::world::attribute;

fn reset_config() {
    #[cfg(feature = "auto-collect")]
    {
        let _ = rust_cc::config::config(|c| {
            c.set_auto_collect(false);
            c.set_adjustment_percent(0.1);
            c.set_buffered_objects_threshold(None);
        });
    }
}

/// Releases everything the program holds, with the oracles on (the epilogue is part of every history).
fn epilogue(wd: &World) {
    let top = Cx::Top;
    let mut acts: Vec<Act> = Vec::new();
    // twice: callbacks that run while the first round releases things may store new handles / cleanables (and a third
    // and fourth time if the second round's callbacks did it again: decided below, when the round has run)
    for _ in 0..2 {
        acts.push(Act::BulkDrop { k: u16::MAX });
        acts.push(Act::BulkWeakDrop { k: u16::MAX });
        for i in 0..NC {
            acts.push(Act::CDrop { c: i as u8 });
        }
        for i in 0..NR {
            acts.push(Act::Drop { dst: Dst::R(i as u8) });
        }
        for i in 0..NG {
            acts.push(Act::Drop { dst: Dst::G(i as u8) });
        }
        acts.push(Act::CollectQuiet);
        for i in 0..NWR {
            acts.push(Act::WDrop { dst: WLoc::WR(i as u8) });
        }
    }
    // probe tail: a fresh object goes through creation, buffering, un-buffering, downgrade / upgrade and try_unwrap at top
    // level with everything else gone. Whatever earlier operations (or an unwound call) left behind in the collector's
    // state, these calls must behave as the statements say (C05 born-finalized, C08 / C09 upgrade and counts, C11 buffer,
    // C13 try_unwrap of a unique pointer): each is judged by the oracle of its own property.
    acts.push(Act::New { dst: Dst::R(0), spec: Box::new(Spec::default()) });
    acts.push(Act::Clone { src: Src::R(0), dst: Dst::R(1) });
    acts.push(Act::Drop { dst: Dst::R(1) });
    acts.push(Act::Downgrade { src: Src::R(0), dst: WLoc::WR(0) });
    acts.push(Act::Upgrade { src: WLoc::WR(0), dst: Dst::R(1) });
    acts.push(Act::Drop { dst: Dst::R(1) });
    acts.push(Act::Query);
    acts.push(Act::TryUnwrap { reg: Dst::R(0) });
    acts.push(Act::Upgrade { src: WLoc::WR(0), dst: Dst::Discard });
    acts.push(Act::WDrop { dst: WLoc::WR(0) });
    acts.push(Act::Collect);
    for (i, a) in acts.iter().enumerate() {
        if wd.failed() {
            return;
        }
        wd.step.set(10_000 + i);
        exec(a, &top);
        oracle::check_qp(wd, "epilogue");
    }
    // whatever callbacks of the rounds above stored anew: release it as well (bounded)
    for round in 0..3 {
        let held = {
            let m = wd.m.borrow();
            m.r.iter().any(|x| x.is_some()) || m.g.iter().any(|x| x.is_some()) || m.wr.iter().any(|x| *x != WT::None) || m.cr.iter().any(|x| x.is_some())
        };
        if !held || wd.failed() {
            break;
        }
        let mut more: Vec<Act> = Vec::new();
        for i in 0..NC {
            more.push(Act::CDrop { c: i as u8 });
        }
        for i in 0..NR {
            more.push(Act::Drop { dst: Dst::R(i as u8) });
        }
        for i in 0..NG {
            more.push(Act::Drop { dst: Dst::G(i as u8) });
        }
        more.push(Act::CollectQuiet);
        for i in 0..NWR {
            more.push(Act::WDrop { dst: WLoc::WR(i as u8) });
        }
        for (i, a) in more.iter().enumerate() {
            if wd.failed() {
                return;
            }
            wd.step.set(10_100 + round * 20 + i);
            exec(a, &top);
            oracle::check_qp(wd, "epilogue");
        }
    }
}

/// Brings the thread back to a clean state whatever happened (violation, fault, leak).
fn teardown(wd: &World) {
    wd.quiesce.set(true);
    wd.fault.set(None);
    let _t = valloc::TagGuard::new(valloc::TAG_CRATE);
    let catch = |f: &mut dyn FnMut()| {
        let _ = std::panic::catch_unwind(std::panic::AssertUnwindSafe(f));
    };
    // after an oracle hit with handle pools in use, counters may be corrupt: leak every handle instead of releasing it
    let poisoned = wd.failed() && !wd.bulk.borrow().is_empty();
    #[cfg(feature = "weak-ptrs")]
    let poisoned = poisoned || (wd.failed() && !wd.wbulk.borrow().is_empty());
    if poisoned {
        for c in wd.r.iter().chain(wd.g.iter()) {
            std::mem::forget(c.borrow_mut().take());
        }
        #[cfg(feature = "weak-ptrs")]
        for c in wd.wr.iter() {
            std::mem::forget(c.borrow_mut().take());
        }
    }
    #[cfg(feature = "cleaners")]
    for c in wd.cr.iter() {
        let mut x = Some(c.borrow_mut().take());
        catch(&mut || drop(x.take()));
    }
    for c in wd.r.iter().chain(wd.g.iter()) {
        let x = c.borrow_mut().take();
        let mut x = Some(x);
        catch(&mut || drop(x.take()));
    }
    // after an oracle hit the counters of a pooled object may be corrupt: releasing thousands of handles through them is
    // not safe, so the pools are leaked then
    let failed = wd.failed();
    loop {
        let Some((_, c)) = wd.bulk.borrow_mut().pop() else { break };
        if failed {
            std::mem::forget(c);
            continue;
        }
        let mut x = Some(c);
        catch(&mut || drop(x.take()));
    }
    #[cfg(feature = "weak-ptrs")]
    loop {
        let Some((_, c)) = wd.wbulk.borrow_mut().pop() else { break };
        if failed {
            std::mem::forget(c);
            continue;
        }
        let mut x = Some(c);
        catch(&mut || drop(x.take()));
    }
    #[cfg(feature = "weak-ptrs")]
    for c in wd.wr.iter() {
        let x = c.borrow_mut().take();
        let mut x = Some(x);
        catch(&mut || drop(x.take()));
    }
    reset_config();
    for _ in 0..4 {
        catch(&mut || collect_cycles());
    }
    drop(_t);
    // whatever is still allocated is leaked for good (pinned garbage, objects skipped by an unwound collection)
    let mut m = wd.m.borrow_mut();
    let mut l = wd.leaked_addrs.borrow_mut();
    for (a, r) in m.boxes.drain() {
        l.insert(a, r.size);
    }
    for (a, _) in m.sides.drain() {
        l.insert(a, 0);
    }
    drop(l);
    drop(m);
    valloc::forget_live(valloc::current_thread_id());
    let _ = valloc::drain_quarantine();
    let _ = valloc::take_errors();
    wd.quiesce.set(false);
}

pub fn run_history(h: &History, cfg: &RunCfg, fault: Option<Fault>, fault2: Option<Fault>) -> Outcome {
    let wd = w();
    // ---- reset ----
    wd.epoch.set(wd.epoch.get() + 1);
    *wd.m.borrow_mut() = Model::new();
    wd.errs.borrow_mut().clear();
    wd.stop_now.set(false);
    wd.harness_errors.borrow_mut().clear();
    wd.stack.borrow_mut().clear();
    wd.trace_log.borrow_mut().clear();
    wd.verbose.set(cfg.verbose);
    wd.in_collection.set(false);
    wd.coll_drop_phase.set(false);
    wd.coll_cb_bound.set(u64::MAX);
    wd.fault.set(fault);
    wd.fault2.set(fault2);
    for c in wd.cb_counts.iter() {
        c.set(0);
    }
    wd.fault_fired.set(0);
    wd.degraded.set(false);
    wd.had_resurrection.set(false);
    wd.quiesce.set(false);
    wd.pending_box.borrow_mut().clear();
    wd.pending_side.borrow_mut().clear();
    wd.freed_boxes.borrow_mut().clear();
    wd.releasing.borrow_mut().clear();
    wd.quiet_digests.borrow_mut().clear();
    wd.fin_events.set(0);
    wd.drop_events.set(0);
    wd.new_in_flight.set(0);
    wd.nested_quiet.set(false);
    wd.fault_obj_mark.set(u32::MAX);
    wd.coll_explicit.set(false);
    wd.cb_total.set(0);
    wd.unwrapping.set(None);
    reset_config();
    wd.auto_on.set(false);
    wd.base_bytes.set(state::allocated_bytes().unwrap_or(0));
    wd.expected_exec.set(state::executions_count().unwrap_or(0) as u64);
    #[cfg(feature = "auto-collect")]
    if wd.init_threshold.get() == 0 {
        wd.init_threshold.set(rust_cc::verif::bytes_threshold().unwrap_or(0));
    }
    let s0 = snap(wd);
    wd.stats.finalizers_in_one_collection_max.set(0);
    let buf0 = wd.stats.max_buffer_len.replace(0);
    let mut mutated = false;
    let mut windows = Vec::new();

    // ---- run ----
    let top = Cx::Top;
    let mut steps = 0;
    for (i, a) in h.ops.iter().enumerate() {
        wd.step.set(i);
        let before = if matches!(a, Act::NewCyclic { .. }) { Some(cb_snapshot(wd)) } else { None };
        exec(a, &top);
        if let Some(b) = before {
            windows.push((i, b, cb_snapshot(wd)));
        }
        if wd.fault.get().is_none() && wd.fault2.get().is_some() && wd.fault_fired.get() == 1 {
            // arm the second fault for the continuation, counting from now
            let f2 = wd.fault2.take().unwrap();
            let base = wd.cb_counts[f2.kind as usize].get();
            wd.fault.set(Some(Fault { kind: f2.kind, k: base + f2.k }));
        }
        if !wd.failed() {
            oracle::check_qp(wd, "op");
        }
        let y = wd.yield_every.get();
        if y > 0 && (i as u32) % y == 0 {
            std::thread::yield_now();
        }
        mutated |= wd.coll_mutated.get();
        steps = i + 1;
        if wd.failed() || !wd.harness_errors.borrow().is_empty() {
            break;
        }
    }
    let state_hash = oracle::current_state_hash(wd);
    if !wd.failed() && wd.harness_errors.borrow().is_empty() {
        epilogue(wd);
        if !wd.failed() && cfg.leak_check && !wd.is_degraded() && wd.fault_fired.get() == 0 {
            end_leak_check(wd);
        }
    }
    let hist_max_fin = wd.stats.finalizers_in_one_collection_max.get();
    let hist_max_buf = wd.stats.max_buffer_len.get();
    wd.stats.max_buffer_len.set(buf0.max(hist_max_buf));
    let viols: Vec<Viol> = wd.errs.borrow().clone();
    let mut out = Outcome {
        viols,
        fired: wd.fault_fired.get(),
        harness_errors: wd.harness_errors.borrow().clone(),
        steps_done: steps,
        digests: wd.quiet_digests.borrow().clone(),
        new_cyclic_windows: windows,
        state_hash,
        ..Default::default()
    };
    for (i, c) in wd.cb_counts.iter().enumerate() {
        out.cb_counts[i] = c.get();
    }
    teardown(wd);
    let s1 = snap(wd);
    out.nontrivial = out.viols.is_empty() && nontrivial(&cfg.mode, &s0, &s1, hist_max_fin, hist_max_buf, mutated);
    out
}

fn cb_snapshot(wd: &World) -> [u64; N_CB] {
    let mut a = [0u64; N_CB];
    for (i, c) in wd.cb_counts.iter().enumerate() {
        a[i] = c.get();
    }
    a
}

/// C03 leak clause: at the end of a panic-free history with nothing pinned, no block allocated by the crate is live.
fn end_leak_check(wd: &World) {
    let m = wd.m.borrow();
    let pinned = m.objs.iter().any(|o| o.val == Val::Alive && o.box_live);
    // the program may still hold something: a callback that ran while the epilogue released the last handles can have
    // stored a new handle, Weak or Cleanable (a Cleanable keeps the side record of its cleaner's map alive) into a
    // register that had already been emptied. Then nothing is judged here.
    let held = m.r.iter().any(|x| x.is_some()) || m.g.iter().any(|x| x.is_some()) || m.wr.iter().any(|x| *x != WT::None) || m.cr.iter().any(|x| x.is_some()) || !m.pins.is_empty() || !m.bulk.is_empty() || !m.wbulk.is_empty();
    drop(m);
    if pinned || held {
        return;
    }
    if wd.mode.get().alloc_tracking && valloc::mode() != valloc::MODE_OFF {
        let mut v = Vec::new();
        let n = valloc::live_blocks(valloc::current_thread_id(), &mut v);
        if n > 0 {
            let m = wd.m.borrow();
            let desc: Vec<String> = v.iter().take(4).map(|b| {
                let kind = if m.boxes.contains_key(&b.ptr) { "managed box".to_string() } else if let Some(s) = m.sides.get(&b.ptr) { format!("weak side record of {:?}", s.owner) } else { "other crate block".to_string() };
                format!("{} of {} bytes", kind, b.size)
            }).collect();
            let kinds: Vec<&str> = v.iter().take(1).map(|b| if m.boxes.contains_key(&b.ptr) { "box" } else if m.sides.contains_key(&b.ptr) { "side" } else { "other" }).collect();
            wd.err("C03", "leak_at_end", format!("blocks_live_at_end:{}", kinds.join(",")), format!("at the end of a panic-free history with nothing left to reclaim, {} blocks allocated by the crate are still live: {}", n, desc.join("; ")));
        }
    }
    let m = wd.m.borrow();
    if !m.sides.is_empty() {
        wd.err("C09", "side_record_leaked", "side_records_live_at_end".into(), format!("{} weak side records are still allocated at the end of the history although every Cc and Weak is gone", m.sides.len()));
    }
    drop(m);
    let (_, dirty) = valloc::drain_quarantine();
    if dirty > 0 {
        for e in valloc::take_errors() {
            if e.kind == valloc::ErrKind::WriteAfterFree {
                wd.err("C01", "write_after_free", "write_into_freed_block".into(), format!("freed block of {} bytes was written to at offset {} after it was released", e.size, e.other_size));
            }
        }
    }
}

// ---------------------------------------------------------------------------------------------------------------

pub struct Shard {
    pub cfg: RunCfg,
    pub rep: Report,
    pub base_args: Vec<String>,
    pub stop: bool,
    pub mode_props_seen: u64,
}

impl Shard {
    /// Reports the violations of one run. Returns true if the shard must stop (memory may be corrupted).
    pub fn report(&mut self, h: &History, out: &Outcome, idx_args: &[String], fault: Option<Fault>, fault2: Option<Fault>) {
        for e in &out.harness_errors {
            self.rep.inconclusive(format!("harness error: {}", e));
            self.stop = true;
        }
        // the first oracle hit decides; hits recorded for the same step under other properties (the same observation
        // seen by two oracles) are used when the first one belongs to a property this check does not report
        let chosen = out.viols.iter().find(|v| self.cfg.props.contains(attribute(v, &self.cfg.mode))).or(out.viols.first());
        if let Some(v) = chosen {
            let prop = attribute(v, &self.cfg.mode);
            let mut replay = self.base_args.clone();
            replay.extend_from_slice(idx_args);
            if let (Some(f), false) = (fault, replay.iter().any(|a| a == "--only")) {
                replay.push("--fault-only".into());
                replay.push(format!("{}:{}", f.kind, f.k));
            }
            if let (Some(f), true) = (fault, replay.iter().any(|a| a == "--only")) {
                replay.push("--fault".into());
                replay.push(match fault2 {
                    Some(f2) => format!("{}:{},{}:{}", f.kind, f.k, f2.kind, f2.k),
                    None => format!("{}:{}", f.kind, f.k),
                });
            }
            replay.push("--verbose".into());
            let sig = format!("{}:{}:{}", prop, v.oracle, v.sig);
            let mut detail = format!("{} [step {}{}]", v.detail, v.step, match fault {
                Some(f) => format!(", injected panic at {} #{}", Cb::from_u8(f.kind).map_or("?", |c| c.name()), f.k),
                None => String::new(),
            });
            detail.push_str(" | history: ");
            let rendered = h.render();
            let upto = (v.step + 1).min(rendered.len());
            let shown: Vec<String> = rendered.iter().take(upto).cloned().collect();
            let mut hs = shown.join("; ");
            if hs.len() > 3000 {
                hs = format!("...{}", &hs[hs.len() - 3000..]);
            }
            detail.push_str(&hs);
            if self.cfg.props.contains(prop) {
                self.rep.viol(prop, v.oracle, &sig, &detail, &replay);
            } else {
                self.rep.count("foreign_oracle_hits", 1);
                self.rep.set_add("foreign_signatures", sig.clone());
            }
            // after any hit on a memory-safety oracle the process state cannot be trusted any more
            if out.viols.iter().any(|v| (matches!(v.prop, "C01" | "C03" | "C20") && !matches!(v.oracle, "box_not_released" | "leak_at_end" | "zero_size_alloc")) || matches!(v.oracle, "drop_of_uninit" | "drop_of_garbage") || v.oracle.contains("dead") || v.oracle.contains("damaged") || v.oracle.contains("panic")) {
                self.stop = true;
            }
        }
    }
}

fn only_f1_early(args: &Args) -> Option<Fault> {
    args.get("--fault").map(parse_fault).and_then(|x| x.0)
}

fn parse_fault(s: &str) -> (Option<Fault>, Option<Fault>) {
    let mut it = s.split(',').map(|p| {
        let mut q = p.split(':');
        let kind: u8 = q.next().and_then(|x| x.parse().ok()).unwrap_or(255);
        let k: u64 = q.next().and_then(|x| x.parse().ok()).unwrap_or(0);
        Fault { kind, k }
    });
    (it.next(), it.next())
}

thread_local! {
    static OPS_OVERRIDE: std::cell::Cell<(usize, usize)> = const { std::cell::Cell::new((0, 0)) };
    /// no saturation motifs (Miri shards and fault enumeration: too slow to repeat per fault point)
    pub static NO_BULK: std::cell::Cell<bool> = const { std::cell::Cell::new(false) };
}

pub fn history_for(mode: &str, gen: &str, seed: u64, idx: u64) -> Option<History> {
    match gen {
        "random" => {
            let mut p = Profile::for_mode(mode);
            if NO_BULK.with(|b| b.get()) {
                p.w_bulk = 0;
            }
            let (lo, hi) = OPS_OVERRIDE.with(|o| o.get());
            if hi > 0 {
                p.min_ops = lo.min(hi);
                p.max_ops = hi;
            }
            let mut rng = Rng::derive(seed, idx);
            let mut g = Gen { rng: &mut rng, p: &p };
            let mut h = g.history();
            h.label = format!("random:{}:{}:{}", mode, seed, idx);
            Some(h)
        }
        "directed" => crate::directed::get(idx as usize),
        _ => None,
    }
}

fn sample_json(h: &History, out: &Outcome, fault: Option<Fault>) -> Json {
    let ops: Vec<Json> = h.render().into_iter().take(60).map(Json::from).collect();
    Json::obj()
        .set("label", h.label.as_str())
        .set("ops", Json::Arr(ops))
        .set("n_ops", h.ops.len())
        .set("callbacks", out.cb_counts.iter().map(|c| Json::UInt(*c)).collect::<Vec<_>>())
        .set("fault", match fault {
            Some(f) => Json::from(format!("{}#{}", Cb::from_u8(f.kind).map_or("?", |c| c.name()), f.k)),
            None => Json::Null,
        })
        .set("violations", out.viols.len())
}

pub fn main(args: &Args) -> i32 {
    std::panic::set_hook(Box::new(|info| {
        // injected panics are silent; anything else is printed (it is either a crate panic or a harness bug)
        let expected = try_w().map_or(false, |wd| wd.expected_panics.get() > 0);
        if info.payload().downcast_ref::<Injected>().is_none() && !expected {
            let msg = info.payload().downcast_ref::<&str>().map(|s| s.to_string()).or_else(|| info.payload().downcast_ref::<String>().cloned()).unwrap_or_default();
            let _t = valloc::TagGuard::new(valloc::TAG_HARNESS);
            eprintln!("panic: {} at {:?}", msg, info.location().map(|l| format!("{}:{}", l.file(), l.line())));
        }
    }));
    let mode = args.str("--mode", "C01");
    let gen = args.str("--gen", "random");
    let seed = args.u64("--seed", 1);
    let count = args.u64("--count", 100);
    let shard = args.u64("--shard", 0);
    let nshards = args.u64("--nshards", 1).max(1);
    let faults = args.str("--faults", "none");
    let max_fault_points = args.u64("--max-fault-points", 600);
    let alloc_mode = args.str("--alloc", "quarantine");
    let props: HashSet<String> = args.str("--props", &mode.replace("diff", "")).split(',').map(|s| s.to_string()).collect();
    let verbose = args.flag("--verbose");
    let only = args.get("--only").and_then(|s| s.parse::<u64>().ok());
    OPS_OVERRIDE.with(|o| o.set((args.usize("--min-ops", 0), args.usize("--max-ops", 0))));
    NO_BULK.with(|b| b.set(args.flag("--no-bulk") || faults != "none" || mode == "C08diff"));
    // replay of a witness found in a shard: re-run that shard up to the witness (state such as the byte threshold
    // carries over from one history to the next, so the prefix is part of the witness)
    let upto = args.get("--upto").and_then(|s| s.parse::<u64>().ok());

    valloc::set_mode(match alloc_mode.as_str() {
        "off" => valloc::MODE_OFF,
        "track" => valloc::MODE_TRACK,
        _ => valloc::MODE_QUARANTINE,
    });
    oracle::install_observer();
    let wd = w();
    wd.mode.set(Mode { alloc_tracking: alloc_mode != "off", buffer_walk: !args.flag("--no-buffer-walk"), policy: true, state_hash: !args.flag("--no-state-hash") });

    let mut base_args: Vec<String> = vec!["--mode".into(), mode.clone(), "--gen".into(), gen.clone(), "--seed".into(), seed.to_string(), "--alloc".into(), alloc_mode.clone()];
    if args.get("--props").is_some() {
        base_args.push("--props".into());
        base_args.push(args.str("--props", ""));
    }
    for k in ["--min-ops", "--max-ops"] {
        if let Some(v) = args.get(k) {
            base_args.push(k.into());
            base_args.push(v.to_string());
        }
    }
    for k in ["--no-state-hash", "--no-buffer-walk", "--no-bulk"] {
        if args.flag(k) {
            base_args.push(k.into());
        }
    }
    wd.judge_idle_after_unwind.set(props.contains("C07") || mode == "C07");
    *wd.run_mode.borrow_mut() = mode.clone();
    *wd.run_props.borrow_mut() = props.iter().cloned().collect();
    let mut sh = Shard { cfg: RunCfg { mode: mode.clone(), props, verbose, leak_check: alloc_mode != "off" }, rep: Report::new(), base_args, stop: false, mode_props_seen: 0 };
    sh.rep.set_add("features", feature_string());
    sh.rep.set_add("profile", if cfg!(debug_assertions) { "debug" } else { "release" });

    if gen == "exhaust" {
        let variant = args.str("--variant", "weak");
        sh.base_args.extend(["--gen".to_string(), "exhaust".to_string()]);
        if let Some(path) = args.get("--path") {
            sh.cfg.verbose = true;
            crate::exhaust::replay(&mut sh, &variant, path, only_f1_early(args));
        } else {
            crate::exhaust::run(&mut sh, args.usize("--depth", 4), &variant, shard, nshards, args.u64("--max-runs", 2_000_000), faults != "none");
        }
        emit_stats(&mut sh.rep);
        sh.rep.emit();
        return 0;
    }
    if gen == "threads" {
        return crate::threads::main(args, seed, &mode, sh);
    }
    if gen == "evolve" {
        crate::evolve::run(&mut sh, &mode, seed, shard, nshards, count, &faults, upto, verbose);
        emit_stats(&mut sh.rep);
        sh.rep.emit();
        return 0;
    }
    if gen == "policy" {
        let rounds = args.u64("--rounds", 20);
        let steps = args.u64("--steps", 400);
        let mut ba = sh.base_args.clone();
        ba.extend(["--gen".to_string(), "policy".to_string()]);
        let props = sh.cfg.props.clone();
        crate::policy::run(&mut sh.rep, seed.wrapping_add(shard), rounds, steps, &props, &ba);
        emit_stats(&mut sh.rep);
        sh.rep.emit();
        return 0;
    }
    let total = if gen == "directed" { crate::directed::count() as u64 } else { count };
    let indices: Vec<u64> = match only {
        Some(i) => vec![i],
        None => (0..total).filter(|i| i % nshards == shard && upto.map_or(true, |u| *i <= u)).collect(),
    };
    let (only_f1, only_f2) = args.get("--fault").map(parse_fault).unwrap_or((None, None));
    // replay of a faulted witness inside its shard: everything before it runs silently, it runs verbosely, then stop
    let fault_only = args.get("--fault-only").map(parse_fault).and_then(|x| x.0);
    let mut fault_points_enumerated = 0u64;
    let mut fault_points_hit = 0u64;

    for idx in indices {
        if sh.stop {
            sh.rep.inconclusive("shard stopped early after a violation that may have corrupted memory");
            break;
        }
        let Some(h) = history_for(&mode, &gen, seed, idx) else { continue };
        let idx_args = if only.is_some() {
            vec!["--only".to_string(), idx.to_string()]
        } else {
            vec!["--count".to_string(), count.to_string(), "--shard".to_string(), shard.to_string(), "--nshards".to_string(), nshards.to_string(), "--faults".to_string(), faults.clone(), "--max-fault-points".to_string(), max_fault_points.to_string(), "--upto".to_string(), idx.to_string()]
        };
        let target = upto.map_or(true, |u| u == idx);
        sh.cfg.verbose = verbose && target && fault_only.is_none();
        if mode == "C08diff" {
            diff_run(&mut sh, &h, &idx_args);
            continue;
        }
        let out = run_history(&h, &sh.cfg, only_f1, only_f2);
        sh.rep.evaluations += 1;
        sh.rep.count("histories", 1);
        if sh.cfg.verbose {
            for l in w().trace_log.borrow().iter() {
                eprintln!("{}", l);
            }
            for v in &out.viols {
                eprintln!("ORACLE {} {} {} :: {}", v.prop, v.oracle, v.sig, v.detail);
            }
        }
        sh.report(&h, &out, &idx_args, only_f1, only_f2);
        if out.nontrivial {
            sh.rep.nontrivial(h.hash());
        }
        if sh.rep.samples.len() < 2 && out.nontrivial {
            sh.rep.sample(sample_json(&h, &out, only_f1));
        }
        if only_f1.is_some() || faults == "none" || !out.viols.is_empty() || sh.stop {
            continue;
        }
        // ---- fault enumeration (DESIGN.md 2.6 item 4): every (kind, k) the un-faulted run exhibited ----
        let mut points: Vec<Fault> = Vec::new();
        if mode == "C14" {
            // only faults raised while a new_cyclic call is running
            for (_, a, b) in &out.new_cyclic_windows {
                for kind in 0..N_CB {
                    for k in (a[kind] + 1)..=b[kind] {
                        points.push(Fault { kind: kind as u8, k });
                    }
                }
            }
        } else {
            for kind in 0..N_CB {
                for k in 1..=out.cb_counts[kind] {
                    points.push(Fault { kind: kind as u8, k });
                }
            }
        }
        let mut rng = Rng::derive(seed ^ 0xFA17, idx);
        if points.len() as u64 > max_fault_points {
            rng.shuffle(&mut points);
            points.truncate(max_fault_points as usize);
            sh.rep.count("fault_histories_sampled", 1);
        } else {
            sh.rep.count("fault_histories_exhaustive", 1);
        }
        for f in points {
            if sh.stop {
                break;
            }
            let is_target = target && fault_only == Some(f);
            sh.cfg.verbose = verbose && is_target;
            fault_points_enumerated += 1;
            let f2 = if faults == "double" && rng.chance(1, 3) { Some(Fault { kind: rng.idx(N_CB) as u8, k: 1 + rng.below(3) }) } else { None };
            let o = run_history(&h, &sh.cfg, Some(f), f2);
            sh.rep.evaluations += 1;
            if sh.cfg.verbose {
                for l in w().trace_log.borrow().iter() {
                    eprintln!("{}", l);
                }
                for v in &o.viols {
                    eprintln!("ORACLE {} {} {} :: {}", v.prop, v.oracle, v.sig, v.detail);
                }
            }
            if o.fired >= 1 {
                fault_points_hit += 1;
                sh.rep.set_add("fault_kinds_hit", Cb::from_u8(f.kind).map_or("?", |c| c.name()));
                if o.fired >= 2 {
                    sh.rep.count("double_faults_fired", 1);
                }
            }
            sh.report(&h, &o, &idx_args, Some(f), f2);
            if is_target {
                sh.stop = true;
            }
            if o.nontrivial {
                let mut hh = vcommon::rng::Fnv::new();
                hh.u64(h.hash());
                hh.u64(f.kind as u64);
                hh.u64(f.k);
                sh.rep.nontrivial(hh.finish());
                if sh.rep.samples.len() < 3 {
                    sh.rep.sample(sample_json(&h, &o, Some(f)));
                }
            }
        }
    }
    if sh.rep.samples.is_empty() {
        if let Some(h) = history_for(&mode, &gen, seed, shard) {
            sh.rep.sample(Json::obj().set("label", h.label.as_str()).set("ops", h.render().into_iter().take(40).map(Json::from).collect::<Vec<_>>()).set("note", "no non-trivial history in this shard; this is the first one it ran"));
        }
    }
    sh.rep.count("fault_points_enumerated", fault_points_enumerated);
    sh.rep.count("fault_points_hit", fault_points_hit);
    emit_stats(&mut sh.rep);
    sh.rep.emit();
    0
}

/// C08 differential run: the same history with weak operations replaced by no-ops must reclaim the same objects
/// at every collect-until-quiet.
fn diff_run(sh: &mut Shard, h: &History, idx_args: &[String]) {
    let wd = w();
    let a = run_history(h, &sh.cfg, None, None);
    wd.noweak.set(true);
    let b = run_history(h, &sh.cfg, None, None);
    wd.noweak.set(false);
    sh.rep.evaluations += 2;
    sh.report(h, &a, idx_args, None, None);
    if a.viols.is_empty() && b.viols.is_empty() && a.harness_errors.is_empty() && b.harness_errors.is_empty() {
        sh.rep.count("differential_pairs", 1);
        sh.rep.count("differential_quiet_points", a.digests.len() as u64);
        if a.digests != b.digests {
            let mut replay = sh.base_args.clone();
            replay.extend_from_slice(idx_args);
            let pos = a.digests.iter().zip(b.digests.iter()).position(|(x, y)| x != y).unwrap_or(a.digests.len().min(b.digests.len()));
            let detail = format!("with and without its Weak operations the history reclaims different objects at collect-until-quiet point {} | history: {}", pos, h.render().join("; "));
            if sh.cfg.props.contains("C08") {
                sh.rep.viol("C08", "weak_changes_reclamation", "C08:weak_changes_reclamation:differential", &detail, &replay);
            }
        }
        if a.nontrivial {
            sh.rep.nontrivial(h.hash());
            if sh.rep.samples.len() < 2 {
                sh.rep.sample(sample_json(h, &a, None));
            }
        }
    }
}

pub fn feature_string() -> String {
    let mut v = vec![];
    if cfg!(feature = "finalization") {
        v.push("finalization");
    }
    if cfg!(feature = "auto-collect") {
        v.push("auto-collect");
    }
    if cfg!(feature = "weak-ptrs") {
        v.push("weak-ptrs");
    }
    if cfg!(feature = "cleaners") {
        v.push("cleaners");
    }
    if v.is_empty() {
        "none".into()
    } else {
        v.join(",")
    }
}

pub fn emit_stats(rep: &mut Report) {
    let wd = w();
    let s = &wd.stats;
    rep.count("ops", s.ops.get());
    for c in CB_ALL {
        rep.count(&format!("cb_{}", c.name()), s.cb[c as usize].get());
    }
    let callback_events: u64 = s.cb.iter().map(|c| c.get()).sum();
    rep.count("callback_events", callback_events);
    rep.count("collections_observed", s.collections.get());
    rep.count("auto_collections", s.auto_collections.get());
    rep.count("nested_noop_collects", s.nested_noop_collects.get());
    rep.count("nested_real_collects", s.nested_real_collects.get());
    rep.count("objects_reclaimed_by_collector", s.reclaimed_by_collector.get());
    rep.count("objects_reclaimed_by_refcount", s.reclaimed_by_rc.get());
    rep.count("resurrections", s.resurrections.get());
    rep.count("oracle_walks", s.qp_walks.get());
    rep.count("oracle_objects_walked", s.objects_walked.get());
    rep.count("oracle_strong_count_checks", s.count_checks.get());
    rep.count("oracle_weak_count_checks", s.weak_count_checks.get());
    rep.count("upgrades_some", s.upgrades_some.get());
    rep.count("upgrades_none", s.upgrades_none.get());
    rep.count("upgrades_indeterminate", s.upgrades_indeterminate.get());
    for (i, n) in ["top", "finalizer", "action", "drop", "closure"].iter().enumerate() {
        rep.count(&format!("upgrade_site_{}", n), s.upgrade_sites[i].get());
    }
    rep.count("try_unwrap_ok", s.try_unwrap_ok.get());
    rep.count("try_unwrap_err", s.try_unwrap_err.get());
    rep.count("c02_quiet_checks", s.c02_checks.get());
    rep.count("c02_quiet_checks_from_callbacks", s.c02_nested_checks.get());
    rep.count("pinned_garbage_left", s.pinned_garbage_left.get());
    rep.count("buffer_walks", s.buffer_walks.get());
    rep.count("buffer_exact_membership_checks", s.buffer_exact_checks.get());
    rep.count("buffer_membership_skipped_unknown", s.buffer_unknown_skipped.get());
    rep.max("buffer_len", s.max_buffer_len.get());
    rep.count("allocated_bytes_checks", s.bytes_checks.get());
    rep.count("executions_count_checks", s.exec_count_checks.get());
    rep.count("is_tracing_samples", s.is_tracing_samples.get());
    rep.count("trigger_decisions", s.trigger_decisions.get());
    rep.count("trigger_fired", s.trigger_fired.get());
    rep.count("actions_run", s.actions_run.get());
    rep.count("cleaner_drops", s.cleaner_drops.get());
    rep.count("side_records", s.side_records.get());
    rep.count("side_record_outlived_box", s.side_outlived_box.get());
    rep.count("weak_queries_after_death", s.weak_queries_after_death.get());
    rep.count("new_cyclic_ok", s.cyclic_ok.get());
    rep.count("new_cyclic_unwound", s.cyclic_panicked.get());
    rep.count("faults_fired", s.faults_fired.get());
    rep.count("faults_unwound_out_of_collection", s.fault_unwound_collector.get());
    rep.count("cascade_checks", s.cascade_checks.get());
    rep.count("count_limit_refusals_observed", s.limit_refusals.get());
    rep.count("acquisitions_beyond_count_limit", s.beyond_limit.get());
    rep.count("stale_callbacks_ignored", s.stale_callbacks.get());
    rep.count("collect_quiet_cap_hits", s.cap_hits.get());
    for (i, n) in ["clone", "mark_alive", "downgrade", "upgrade", "unwrap", "collection"].iter().enumerate() {
        rep.count(&format!("buffer_leave_{}", n), s.leave_ops[i].get());
    }
    rep.count("distinct_abstract_states", oracle::distinct_states() as u64);
    let (a, f) = valloc::tracked_event_counts();
    rep.count("allocator_tracked_allocs", a);
    rep.count("allocator_tracked_frees", f);
}
