//! The scripted payload type. `Trace`, `Finalize`, `Drop` (and the cleaning actions / new_cyclic closures in
//! interp.rs) are thin shims: log + online oracle + fault point + scripted actions through the interpreter.
use crate::ops::*;
use crate::world::*;
use rust_cc::*;
#[cfg(feature = "cleaners")]
use rust_cc::cleaners::Cleaner;
#[cfg(feature = "weak-ptrs")]
use rust_cc::weak::Weak;
use std::cell::{Cell, RefCell};

pub const MAGIC: u128 = 0x5EED_C0DE_1234_5678_9ABC_DEF0_0F1E_2D3C;
pub const TOMBSTONE: u128 = 0xDEAD_DEAD_DEAD_DEAD_DEAD_DEAD_DEAD_DEAD;

pub fn canary_for(epoch: u32, id: u32) -> u128 {
    MAGIC ^ ((epoch as u128) << 32) ^ (id as u128)
}

pub struct Node {
    pub canary: Cell<u128>,
    pub id: u32,
    pub epoch: u32,
    pub t: [RefCell<Option<Cc<Node>>>; NT],
    pub h: [RefCell<Option<Cc<Node>>>; NH],
    /// traced, but never dropped by this value's drop glue: a Cc left in it when the owner dies is leaked
    pub md: std::mem::ManuallyDrop<RefCell<Option<Cc<Node>>>>,
    #[cfg(feature = "weak-ptrs")]
    pub w: [RefCell<Option<Weak<Node>>>; NW],
    #[cfg(feature = "cleaners")]
    pub pre: Marker,
    #[cfg(feature = "cleaners")]
    pub cleaner: Cleaner,
    #[cfg(feature = "cleaners")]
    pub post: Marker,
    /// makes nodes of different sizes (the byte accounting oracles must not depend on one size)
    pub pad: Pad,
    /// last field: its Drop marks the end of this value's drop glue (every slot has been released by then)
    pub glue_end: GlueEnd,
}

pub struct GlueEnd {
    pub id: u32,
    pub epoch: u32,
}

impl Drop for GlueEnd {
    fn drop(&mut self) {
        let Some(wd) = try_w() else { return };
        if wd.epoch.get() != self.epoch {
            return;
        }
        crate::oracle::on_glue_end(wd, self.id);
    }
}

pub enum Pad {
    P0,
    P1([u8; 24]),
    P2([u64; 32]),
}

#[cfg(feature = "cleaners")]
pub struct Marker {
    pub id: u32,
    pub epoch: u32,
    pub exit: bool,
}

impl Node {
    pub fn build(epoch: u32, id: u32) -> Node {
        Node {
            canary: Cell::new(canary_for(epoch, id)),
            id,
            epoch,
            t: Default::default(),
            h: Default::default(),
            md: std::mem::ManuallyDrop::new(RefCell::new(None)),
            #[cfg(feature = "weak-ptrs")]
            w: Default::default(),
            #[cfg(feature = "cleaners")]
            pre: Marker { id, epoch, exit: false },
            #[cfg(feature = "cleaners")]
            cleaner: Cleaner::new(),
            #[cfg(feature = "cleaners")]
            post: Marker { id, epoch, exit: true },
            pad: match id % 3 {
                0 => Pad::P0,
                1 => Pad::P1([id as u8; 24]),
                _ => Pad::P2([id as u64; 32]),
            },
            glue_end: GlueEnd { id, epoch },
        }
    }

    #[inline]
    pub fn canary_state(&self) -> CanaryState {
        let c = self.canary.get();
        if c == canary_for(self.epoch, self.id) {
            CanaryState::Good
        } else if c == TOMBSTONE {
            CanaryState::Tombstone
        } else {
            CanaryState::Garbage
        }
    }

    /// Traced slot i: 0..NT are ordinary, NT is the ManuallyDrop one.
    pub fn tslot(&self, i: usize) -> Option<&RefCell<Option<Cc<Node>>>> {
        if i < NT {
            self.t.get(i)
        } else if i == NT {
            Some(&*self.md)
        } else {
            None
        }
    }

    pub fn pad_ok(&self) -> bool {
        match &self.pad {
            Pad::P0 => true,
            Pad::P1(b) => b.iter().all(|x| *x == self.id as u8),
            Pad::P2(b) => b.iter().all(|x| *x == self.id as u64),
        }
    }
}

#[derive(Clone, Copy, Debug, PartialEq, Eq)]
pub enum CanaryState {
    Good,
    Tombstone,
    Garbage,
}

/// Is this callback about an object of the history that is running now? Objects leaked by earlier (faulted)
/// histories may still be released later; their callbacks are counted and otherwise ignored.
fn current(epoch: u32) -> bool {
    w().epoch.get() == epoch
}

unsafe impl Trace for Node {
    fn trace(&self, ctx: &mut Context<'_>) {
        let wd = w();
        let cs = self.canary_state();
        if cs != CanaryState::Good {
            // tracing a dropped / freed object: the collector is walking dead memory
            if wd.epoch.get() == self.epoch || cs == CanaryState::Garbage {
                wd.err("C01", "trace_dead_object", format!("trace_on_{:?}", cs), format!("Trace::trace invoked on an object whose canary is {:?} (id field reads {})", cs, self.id));
            }
            return;
        }
        if !current(self.epoch) {
            bump(&wd.stats.stale_callbacks);
            for s in self.t.iter() {
                s.trace(ctx);
            }
            self.md.trace(ctx);
            return;
        }
        let _g = FrameGuard::cb(Cb::TracePre, self.id);
        wd.tlog(|| format!("trace #{}", self.id));
        wd.coll_drop_phase.set(false);
        crate::oracle::on_callback_event(wd, Cb::TracePre, self.id);
        bump(&wd.stats.is_tracing_samples);
        match state::is_tracing().ok() {
            Some(true) => {}
            other => wd.err("C12", "is_tracing_in_trace", format!("is_tracing_{:?}_in_trace:{}", other, wd.stack_sig()), format!("state::is_tracing() = {:?} inside Trace::trace of #{} (stack {})", other, self.id, wd.stack_sig())),
        }
        wd.fault_point(Cb::TracePre);
        self.t[0].trace(ctx);
        wd.fault_point(Cb::TraceMid);
        for s in self.t.iter().skip(1) {
            s.trace(ctx);
        }
        self.md.trace(ctx);
        wd.fault_point(Cb::TracePost);
    }
}

impl Finalize for Node {
    fn finalize(&self) {
        let wd = w();
        let cs = self.canary_state();
        if cs != CanaryState::Good {
            wd.err("C05", "finalize_dead_object", format!("finalize_on_{:?}", cs), format!("Finalize::finalize invoked on an object whose canary is {:?} (id field reads {})", cs, self.id));
            return;
        }
        if !current(self.epoch) {
            bump(&wd.stats.stale_callbacks);
            return;
        }
        let _g = FrameGuard::cb(Cb::Finalize, self.id);
        wd.tlog(|| format!("finalize #{}", self.id));
        crate::oracle::on_finalize(wd, self);
        wd.fault_point(Cb::Finalize);
        if wd.quiesce.get() || wd.failed() {
            return;
        }
        let script = wd.m.borrow().obj(self.id).map(|o| o.spec.fin.clone()).unwrap_or_default();
        for a in script.iter() {
            crate::interp::exec(a, &crate::interp::Cx::Fin(self));
            if wd.failed() {
                break;
            }
        }
    }
}

impl Drop for Node {
    fn drop(&mut self) {
        let wd = match try_w() {
            Some(w) => w,
            None => return,
        };
        let cs = self.canary_state();
        match cs {
            CanaryState::Good => {}
            CanaryState::Tombstone => {
                wd.err("C03", "double_drop", "drop_on_tombstone".into(), format!("Drop::drop invoked a second time on #{}", self.id));
                return;
            }
            CanaryState::Garbage => {
                wd.err("C03", "drop_of_garbage", "drop_on_garbage".into(), format!("Drop::drop invoked on memory that holds no live value (freed or never initialised); id field reads {}", self.id));
                return;
            }
        }
        if !current(self.epoch) {
            bump(&wd.stats.stale_callbacks);
            self.canary.set(TOMBSTONE);
            return;
        }
        let _g = FrameGuard::cb(Cb::Drop, self.id);
        wd.tlog(|| format!("drop #{}", self.id));
        crate::oracle::on_drop(wd, self);
        self.canary.set(TOMBSTONE);
        wd.fault_point(Cb::Drop);
        if wd.quiesce.get() || wd.failed() {
            return;
        }
        let script = wd.m.borrow().obj(self.id).map(|o| o.spec.drp.clone()).unwrap_or_default();
        for a in script.iter() {
            crate::interp::exec_dact(*a, self);
        }
    }
}

#[cfg(feature = "cleaners")]
impl Drop for Marker {
    fn drop(&mut self) {
        let Some(wd) = try_w() else { return };
        if wd.epoch.get() != self.epoch {
            return;
        }
        crate::oracle::on_cleaner_marker(wd, self.id, self.exit);
    }
}

// Markers hold no Cc: nothing to trace.
