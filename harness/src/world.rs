//! Thread-local world of one interpreter: the program's registers and globals (real handles), the shadow model,
//! the callback nesting stack, the fault plan, the error list and the run counters. Everything is behind Cell /
//! RefCell and no borrow is ever held across a call into rust-cc (callbacks re-enter this module).
use crate::model::*;
use crate::node::Node;
use crate::ops::*;
use rust_cc::Cc;
#[cfg(feature = "cleaners")]
use rust_cc::cleaners::Cleanable;
#[cfg(feature = "weak-ptrs")]
use rust_cc::weak::Weak;
use std::cell::{Cell, RefCell};

#[derive(Clone, Copy, Debug, PartialEq, Eq)]
pub enum Frame {
    /// a call into the crate made by the interpreter
    ApiCollect,
    ApiNew,
    ApiDrop,
    ApiClean,
    ApiOther,
    /// a user callback invoked by the crate
    Cb(Cb, u32),
}

#[derive(Clone, Debug)]
pub struct Viol {
    pub prop: &'static str,
    pub oracle: &'static str,
    pub sig: String,
    pub detail: String,
    pub after_fault: bool,
    pub after_resurrection: bool,
    pub in_action: bool,
    pub in_cyclic: bool,
    pub step: usize,
}

/// Which optional oracles are on (some need the instrumented allocator / the hooks).
#[derive(Clone, Copy, Debug)]
pub struct Mode {
    pub alloc_tracking: bool,
    pub buffer_walk: bool,
    pub policy: bool,
    pub state_hash: bool,
}
impl Default for Mode {
    fn default() -> Self {
        Mode { alloc_tracking: true, buffer_walk: true, policy: true, state_hash: true }
    }
}

#[derive(Clone, Copy, Debug, Default, PartialEq, Eq)]
pub struct Fault {
    pub kind: u8,
    pub k: u64,
}

#[derive(Default)]
pub struct Stats {
    pub ops: Cell<u64>,
    pub cb: [Cell<u64>; N_CB],
    pub collections: Cell<u64>,
    pub auto_collections: Cell<u64>,
    pub nested_noop_collects: Cell<u64>,
    pub nested_real_collects: Cell<u64>,
    pub reclaimed_by_collector: Cell<u64>,
    pub reclaimed_by_rc: Cell<u64>,
    pub resurrections: Cell<u64>,
    pub qp_walks: Cell<u64>,
    pub objects_walked: Cell<u64>,
    pub count_checks: Cell<u64>,
    pub weak_count_checks: Cell<u64>,
    pub upgrades_some: Cell<u64>,
    pub upgrades_none: Cell<u64>,
    pub upgrade_sites: [Cell<u64>; 5],
    pub upgrades_indeterminate: Cell<u64>,
    pub try_unwrap_ok: Cell<u64>,
    pub try_unwrap_err: Cell<u64>,
    pub c02_checks: Cell<u64>,
    pub c02_nested_checks: Cell<u64>,
    pub c02_garbage_objects: Cell<u64>,
    pub pinned_garbage_left: Cell<u64>,
    pub buffer_exact_checks: Cell<u64>,
    pub buffer_unknown_skipped: Cell<u64>,
    pub buffer_walks: Cell<u64>,
    pub max_buffer_len: Cell<u64>,
    pub bytes_checks: Cell<u64>,
    pub exec_count_checks: Cell<u64>,
    pub is_tracing_samples: Cell<u64>,
    pub trigger_decisions: Cell<u64>,
    pub trigger_fired: Cell<u64>,
    pub actions_run: Cell<u64>,
    pub cleaner_drops: Cell<u64>,
    pub side_records: Cell<u64>,
    pub side_outlived_box: Cell<u64>,
    pub weak_queries_after_death: Cell<u64>,
    pub cyclic_ok: Cell<u64>,
    pub cyclic_panicked: Cell<u64>,
    pub faults_fired: Cell<u64>,
    pub fault_unwound_collector: Cell<u64>,
    pub finalizers_in_one_collection_max: Cell<u64>,
    pub cascade_checks: Cell<u64>,
    pub stale_callbacks: Cell<u64>,
    pub cap_hits: Cell<u64>,
    pub leave_ops: [Cell<u64>; 6],
    pub beyond_limit: Cell<u64>,
    pub limit_refusals: Cell<u64>,
}

pub fn bump(c: &Cell<u64>) {
    c.set(c.get() + 1);
}
pub fn bump_max(c: &Cell<u64>, v: u64) {
    if v > c.get() {
        c.set(v);
    }
}

pub struct World {
    pub r: [RefCell<Option<Cc<Node>>>; NR],
    pub g: [RefCell<Option<Cc<Node>>>; NG],
    #[cfg(feature = "weak-ptrs")]
    pub wr: [RefCell<Option<Weak<Node>>>; NWR],
    #[cfg(feature = "cleaners")]
    pub cr: [RefCell<Option<Cleanable>>; NC],
    /// the program's pool of extra handles (Act::Bulk): (object id, handle)
    pub bulk: RefCell<Vec<(u32, Cc<Node>)>>,
    #[cfg(feature = "weak-ptrs")]
    pub wbulk: RefCell<Vec<(u32, Weak<Node>)>>,
    pub m: RefCell<Model>,
    pub stack: RefCell<Vec<Frame>>,
    pub errs: RefCell<Vec<Viol>>,
    pub trace_log: RefCell<Vec<String>>,
    pub verbose: Cell<bool>,
    pub epoch: Cell<u32>,
    pub step: Cell<usize>,
    // collection tracking (harness view)
    pub in_collection: Cell<bool>,
    pub coll_drop_phase: Cell<bool>,
    pub coll_cb_events: Cell<u64>,
    pub coll_cb_bound: Cell<u64>,
    pub coll_finalizers: Cell<u64>,
    pub coll_resurrected: Cell<bool>,
    pub expected_exec: Cell<u64>,
    pub fin_events: Cell<u64>,
    pub drop_events: Cell<u64>,
    // fault plan
    pub fault: Cell<Option<Fault>>,
    pub fault2: Cell<Option<Fault>>,
    pub cb_counts: [Cell<u64>; N_CB],
    pub fault_fired: Cell<u32>,
    pub degraded: Cell<bool>,
    pub had_resurrection: Cell<bool>,
    pub quiesce: Cell<bool>,
    pub noweak: Cell<bool>,
    pub box_seq: Cell<u64>,
    // pending classification of allocation events
    pub pending_box: RefCell<Vec<BoxOwner>>,
    pub pending_side: RefCell<Vec<BoxOwner>>,
    pub expect_dealloc: Cell<Option<(usize, usize, usize)>>,
    pub base_bytes: Cell<usize>,
    pub init_threshold: Cell<usize>,
    pub stats: Stats,
    // digests for the differential run (C08)
    pub quiet_digests: RefCell<Vec<u64>>,
    pub auto_on: Cell<bool>,
    /// ids whose handle is being released by the interpreter right now (Cc::drop in flight)
    pub releasing: RefCell<Vec<u32>>,
    pub coll_mutated: Cell<bool>,
    pub coll_start_alive: Cell<u64>,
    pub last_box_alloc: Cell<(usize, usize)>,
    pub freed_boxes: RefCell<Vec<(usize, u64)>>,
    pub pending_upgrades: RefCell<Vec<u32>>,
    pub harness_errors: RefCell<Vec<String>>,
    pub mode: Cell<Mode>,
    /// boxes leaked by earlier histories of this thread (addr -> size); they may still be released later
    pub leaked_addrs: RefCell<std::collections::HashMap<usize, usize>>,
    /// the object a try_unwrap call in flight is about to move out of (its box is released inside that call)
    pub unwrapping: Cell<Option<u32>>,
    /// number of Cc::new / new_cyclic / register calls in flight (their trigger decision is judged when they return)
    pub new_in_flight: Cell<u32>,
    /// all callback events of this history
    pub cb_total: Cell<u64>,
    pub drop_phase_id: Cell<u64>,
    /// >0 while the interpreter provokes a panic it expects (finalize_again inside callbacks)
    pub expected_panics: Cell<u32>,
    /// C19: yield to other threads after every n-th operation (0 = never)
    pub yield_every: Cell<u32>,
    /// a collect-until-quiet loop requested from a callback is running (do not start another one inside it)
    pub nested_quiet: Cell<bool>,
    /// objects with an id below this existed when the (first) injected panic was caught: only they may be affected by it
    pub fault_obj_mark: Cell<u32>,
    /// the running collection was requested by the interpreter through collect_cycles()
    pub coll_explicit: Cell<bool>,
    /// (owner, action index) of the Cleanable::clean() calls in flight
    pub cleaning: RefCell<Vec<(u32, usize)>>,
    /// behaviour features of the running history (novelty feedback of the evolve generator; never a verdict)
    pub feat_on: Cell<bool>,
    pub feats: RefCell<Vec<u64>>,
    /// the running check reports C07: the "collector idle after the unwind" probes are judged at the unwind itself.
    /// Other checks leave them to C07 and observe the consequences of a stuck flag through their own oracles instead.
    pub judge_idle_after_unwind: Cell<bool>,
    /// the check that is running: its mode and the properties it reports (decide which oracle hits end a history)
    pub run_mode: RefCell<String>,
    pub run_props: RefCell<Vec<String>>,
    /// set once an oracle hit that ends the history was recorded (own property, or memory may be corrupt)
    pub stop_now: Cell<bool>,
}

impl World {
    fn new() -> World {
        World {
            r: Default::default(),
            g: Default::default(),
            #[cfg(feature = "weak-ptrs")]
            wr: Default::default(),
            #[cfg(feature = "cleaners")]
            cr: Default::default(),
            bulk: RefCell::new(Vec::new()),
            #[cfg(feature = "weak-ptrs")]
            wbulk: RefCell::new(Vec::new()),
            m: RefCell::new(Model::new()),
            stack: RefCell::new(Vec::with_capacity(1024)),
            errs: RefCell::new(Vec::new()),
            trace_log: RefCell::new(Vec::new()),
            verbose: Cell::new(false),
            epoch: Cell::new(0),
            step: Cell::new(0),
            in_collection: Cell::new(false),
            coll_drop_phase: Cell::new(false),
            coll_cb_events: Cell::new(0),
            coll_cb_bound: Cell::new(u64::MAX),
            coll_finalizers: Cell::new(0),
            coll_resurrected: Cell::new(false),
            expected_exec: Cell::new(0),
            fin_events: Cell::new(0),
            drop_events: Cell::new(0),
            fault: Cell::new(None),
            fault2: Cell::new(None),
            cb_counts: Default::default(),
            fault_fired: Cell::new(0),
            degraded: Cell::new(false),
            had_resurrection: Cell::new(false),
            quiesce: Cell::new(false),
            noweak: Cell::new(false),
            box_seq: Cell::new(0),
            pending_box: RefCell::new(Vec::with_capacity(64)),
            pending_side: RefCell::new(Vec::with_capacity(64)),
            expect_dealloc: Cell::new(None),
            base_bytes: Cell::new(0),
            init_threshold: Cell::new(0),
            stats: Stats::default(),
            quiet_digests: RefCell::new(Vec::new()),
            auto_on: Cell::new(false),
            releasing: RefCell::new(Vec::with_capacity(256)),
            coll_mutated: Cell::new(false),
            coll_start_alive: Cell::new(0),
            last_box_alloc: Cell::new((0, 0)),
            freed_boxes: RefCell::new(Vec::with_capacity(1024)),
            pending_upgrades: RefCell::new(Vec::new()),
            harness_errors: RefCell::new(Vec::new()),
            mode: Cell::new(Mode::default()),
            leaked_addrs: RefCell::new(std::collections::HashMap::new()),
            unwrapping: Cell::new(None),
            new_in_flight: Cell::new(0),
            cb_total: Cell::new(0),
            drop_phase_id: Cell::new(0),
            expected_panics: Cell::new(0),
            yield_every: Cell::new(0),
            nested_quiet: Cell::new(false),
            fault_obj_mark: Cell::new(u32::MAX),
            coll_explicit: Cell::new(false),
            cleaning: RefCell::new(Vec::with_capacity(16)),
            judge_idle_after_unwind: Cell::new(true),
            run_mode: RefCell::new(String::new()),
            run_props: RefCell::new(Vec::new()),
            stop_now: Cell::new(false),
            feat_on: Cell::new(false),
            feats: RefCell::new(Vec::with_capacity(FEAT_CAP)),
        }
    }
}

thread_local! {
    static W: &'static World = Box::leak(Box::new(World::new()));
}

/// The world of this thread. Leaked on purpose: it must stay usable from callbacks that run during thread
/// teardown, and it never owns handles between histories.
pub fn w() -> &'static World {
    W.with(|w| *w)
}

pub fn try_w() -> Option<&'static World> {
    W.try_with(|w| *w).ok()
}

pub const FEAT_CAP: usize = 1 << 15;

// feature tags (evolve generator)
pub const FT_EXEC: u64 = 1;
pub const FT_CB: u64 = 2;
pub const FT_UPGRADE: u64 = 3;
pub const FT_UNWRAP: u64 = 4;
pub const FT_FINAGAIN: u64 = 5;
pub const FT_COLL: u64 = 6;
pub const FT_UNWIND: u64 = 7;
pub const FT_OBJ: u64 = 8;
pub const FT_EDGE: u64 = 9;
pub const FT_BUF: u64 = 10;
pub const FT_CLEAN: u64 = 11;
pub const FT_RELEASE: u64 = 12;

impl World {
    /// Code of the callback / API nesting (kinds only, consecutive repeats collapsed, innermost 8 frames).
    pub fn stack_code(&self) -> u64 {
        let Ok(s) = self.stack.try_borrow() else { return 0 };
        let mut h: u64 = 0xcbf2_9ce4_8422_2325;
        let mut last = 255u64;
        let start = s.len().saturating_sub(8);
        for f in s[start..].iter() {
            let k: u64 = match f {
                Frame::ApiCollect => 1,
                Frame::ApiNew => 2,
                Frame::ApiDrop => 3,
                Frame::ApiClean => 4,
                Frame::ApiOther => 5,
                Frame::Cb(c, _) => match c {
                    Cb::TracePre | Cb::TraceMid | Cb::TracePost => 6,
                    Cb::Finalize => 7,
                    Cb::Drop => 8,
                    Cb::Action => 9,
                    Cb::Closure => 10,
                },
            };
            if k == last {
                continue;
            }
            last = k;
            h = (h ^ k).wrapping_mul(0x0000_0100_0000_01B3);
        }
        h
    }

    /// Records a behaviour feature (context = nesting stack). No allocation: the list is pre-reserved and capped.
    pub fn feature(&self, tag: u64, a: u64, b: u64) {
        if !self.feat_on.get() {
            return;
        }
        let mut h = self.stack_code();
        for x in [tag, a, b] {
            h = (h ^ x).wrapping_mul(0x0000_0100_0000_01B3);
            h ^= h >> 29;
        }
        if let Ok(mut f) = self.feats.try_borrow_mut() {
            if f.len() < FEAT_CAP {
                f.push(h);
            }
        }
    }

    /// Same, without the nesting context (state-shape features sampled at quiescent points).
    pub fn feature_flat(&self, tag: u64, a: u64, b: u64) {
        if !self.feat_on.get() {
            return;
        }
        let mut h: u64 = 0x9E37_79B9_7F4A_7C15;
        for x in [tag, a, b] {
            h = (h ^ x).wrapping_mul(0x0000_0100_0000_01B3);
            h ^= h >> 29;
        }
        if let Ok(mut f) = self.feats.try_borrow_mut() {
            if f.len() < FEAT_CAP {
                f.push(h);
            }
        }
    }
}

/// Which property an oracle hit is reported under, given the check that is running (DESIGN.md sections 3-4).
pub fn attribute(v: &Viol, mode: &str) -> &'static str {
    let base = v.prop;
    match mode {
        "C06" => {
            if v.after_resurrection && !v.after_fault && matches!(base, "C01" | "C02") {
                return "C06";
            }
            base
        }
        "C07" => {
            if v.after_fault && matches!(base, "C01" | "C03" | "C05" | "C08" | "C07" | "C14") {
                return "C07";
            }
            base
        }
        "C10" => {
            if v.in_action && !v.after_fault && matches!(base, "C08" | "C01") {
                return "C10";
            }
            base
        }
        "C14" => {
            if v.after_fault && matches!(base, "C01" | "C03" | "C05" | "C08" | "C09" | "C07") {
                return "C14";
            }
            if v.in_cyclic && matches!(base, "C08" | "C09") {
                return "C14";
            }
            base
        }
        "C19" => "C19",
        _ => base,
    }
}

// ---------------------------------------------------------------------------------------------------------------
// errors

impl World {
    pub fn in_action(&self) -> bool {
        self.stack.borrow().iter().any(|f| matches!(f, Frame::Cb(Cb::Action, _)))
    }
    pub fn in_closure(&self) -> bool {
        self.stack.borrow().iter().any(|f| matches!(f, Frame::Cb(Cb::Closure, _)))
    }
    pub fn in_callback(&self) -> bool {
        self.stack.borrow().iter().any(|f| matches!(f, Frame::Cb(_, _)))
    }
    pub fn innermost_cb(&self) -> Option<(Cb, u32)> {
        self.stack.borrow().iter().rev().find_map(|f| if let Frame::Cb(c, id) = f { Some((*c, *id)) } else { None })
    }
    pub fn innermost_api(&self) -> Option<Frame> {
        self.stack.borrow().iter().rev().find(|f| !matches!(f, Frame::Cb(_, _))).copied()
    }
    pub fn stack_sig(&self) -> String {
        let s = self.stack.borrow();
        let mut out = String::new();
        for f in s.iter() {
            if !out.is_empty() {
                out.push('>');
            }
            out.push_str(match f {
                Frame::ApiCollect => "collect",
                Frame::ApiNew => "new",
                Frame::ApiDrop => "drop",
                Frame::ApiClean => "clean",
                Frame::ApiOther => "api",
                Frame::Cb(c, _) => match c {
                    Cb::TracePre | Cb::TraceMid | Cb::TracePost => "TRACE",
                    Cb::Finalize => "FIN",
                    Cb::Drop => "DROP",
                    Cb::Action => "ACTION",
                    Cb::Closure => "CLOSURE",
                },
            });
        }
        if out.is_empty() {
            out.push_str("top");
        }
        out
    }

    /// Records an oracle hit. Never panics.
    pub fn err(&self, prop: &'static str, oracle: &'static str, sig: String, detail: String) {
        if let Ok(mut e) = self.errs.try_borrow_mut() {
            let v = Viol {
                prop,
                oracle,
                sig,
                detail,
                after_fault: self.degraded.get() || self.fault_fired.get() > 0,
                after_resurrection: self.had_resurrection.get(),
                in_action: self.in_action(),
                in_cyclic: self.in_closure(),
                step: self.step.get(),
            };
            // A hit ends the history when it belongs to a property this check reports, or when the process state can no
            // longer be trusted (memory-safety oracles). Hits of other properties are kept (reported as foreign) and the
            // history goes on: the running check then sees what the same misbehaviour does in terms of its own property.
            // (On a tree where every property holds there are no hits at all, so this changes nothing there.)
            let own = {
                let mode = self.run_mode.try_borrow().map(|m| m.clone()).unwrap_or_default();
                let a = attribute(&v, &mode);
                self.run_props.try_borrow().map(|p| p.is_empty() || p.iter().any(|x| x == a)).unwrap_or(true)
            };
            // (a box that is released late or never, and a zero-sized request, corrupt nothing)
            let harmless = matches!(oracle, "box_not_released" | "leak_at_end" | "zero_size_alloc");
            let fatal = (matches!(prop, "C01" | "C03" | "C20") && !harmless) || matches!(oracle, "drop_of_uninit" | "drop_of_garbage") || oracle.contains("dead") || oracle.contains("damaged") || oracle.contains("panic");
            if own || fatal {
                self.stop_now.set(true);
            }
            let foreign_same = !own && e.iter().filter(|x| x.oracle == oracle).count() >= 2;
            if e.len() < 24 && !foreign_same {
                e.push(v);
            }
        } else {
            self.stop_now.set(true);
        }
    }

    /// A panic was injected in this history (caught already, or still unwinding: destructors and cleaning actions that
    /// run during the unwinding already see the leaked / skipped state the panic leaves behind).
    pub fn is_degraded(&self) -> bool {
        self.degraded.get() || self.fault_fired.get() > 0
    }

    /// An oracle hit that ends the history has been recorded.
    pub fn failed(&self) -> bool {
        self.stop_now.get()
    }

    /// A problem of the harness itself (never a verdict about the crate).
    pub fn harness_error(&self, msg: String) {
        if let Ok(mut e) = self.harness_errors.try_borrow_mut() {
            if e.len() < 8 {
                e.push(msg);
            }
        }
    }

    pub fn tlog(&self, f: impl FnOnce() -> String) {
        if self.verbose.get() {
            let _t = vcommon::alloc::TagGuard::new(vcommon::alloc::TAG_HARNESS);
            if let Ok(mut l) = self.trace_log.try_borrow_mut() {
                let depth = self.stack.borrow().len();
                l.push(format!("{}{}", "  ".repeat(depth), f()));
            }
        }
    }
}

/// RAII frame: pushes on creation, pops on drop (also when unwinding), switches the allocator tag.
pub struct FrameGuard {
    old_tag: u8,
}

impl FrameGuard {
    pub fn api(f: Frame) -> FrameGuard {
        let wd = w();
        wd.stack.borrow_mut().push(f);
        FrameGuard { old_tag: vcommon::alloc::set_tag(vcommon::alloc::TAG_CRATE) }
    }
    pub fn cb(c: Cb, id: u32) -> FrameGuard {
        let wd = w();
        wd.stack.borrow_mut().push(Frame::Cb(c, id));
        FrameGuard { old_tag: vcommon::alloc::set_tag(vcommon::alloc::TAG_HARNESS) }
    }
}

impl Drop for FrameGuard {
    fn drop(&mut self) {
        if let Some(wd) = try_w() {
            if let Ok(mut s) = wd.stack.try_borrow_mut() {
                s.pop();
            }
        }
        vcommon::alloc::set_tag(self.old_tag);
    }
}

/// The panic payload of injected faults.
#[derive(Debug, Clone, Copy, PartialEq, Eq)]
pub struct Injected {
    pub kind: u8,
    pub k: u64,
}

impl World {
    /// Counts the invocation of callback kind `c` and panics if the fault plan says so.
    pub fn fault_point(&self, c: Cb) {
        let cell = &self.cb_counts[c as usize];
        cell.set(cell.get() + 1);
        bump(&self.stats.cb[c as usize]);
        if self.feat_on.get() {
            let fl = rust_cc::verif::state_flags().map_or(9, |(a, b, d)| a as u64 | (b as u64) << 1 | (d as u64) << 2);
            self.feature(FT_CB, c as u64, fl | (self.coll_drop_phase.get() as u64) << 4 | (self.in_collection.get() as u64) << 5);
        }
        if let Some(f) = self.fault.get() {
            if f.kind == c as u8 && f.k == cell.get() {
                self.fault.set(None);
                self.fault_fired.set(self.fault_fired.get() + 1);
                // while the panic is unwinding every existing object may be affected; the mark is set again when it is caught
                self.fault_obj_mark.set(u32::MAX);
                bump(&self.stats.faults_fired);
                if self.in_collection.get() {
                    bump(&self.stats.fault_unwound_collector);
                }
                self.tlog(|| format!("!! injected panic {:?}#{}", c, f.k));
                std::panic::panic_any(Injected { kind: f.kind, k: f.k });
            }
        }
    }
}
