//! Small-scope exploration with novelty pruning (DESIGN.md 2.6 item 3): breadth-first over a compact alphabet on
//! <= 3 objects; every candidate history is re-executed from an empty heap against the real crate with all oracles
//! on; its abstract state after the last operation (model graph + hook snapshots of every reachable / buffered
//! object + buffer order) is hashed, and only histories that end in a state not seen before are extended.
use crate::ops::*;
use crate::run::{run_history, RunCfg, Shard};
use std::collections::HashSet;
use vcommon::Json;

fn new_plain(r: u8) -> Act {
    Act::New { dst: Dst::R(r), spec: Box::new(Spec::default()) }
}

pub fn alphabet(variant: &str) -> Vec<Act> {
    let mut a = Vec::new();
    for r in 0..3u8 {
        a.push(new_plain(r));
    }
    // an object whose finalizer resurrects its traced neighbour / itself (through the self-weak in slot 0)
    a.push(Act::New { dst: Dst::R(0), spec: Box::new(Spec { fin: vec![Act::Clone { src: Src::MeT(0), dst: Dst::G(0) }], drp: vec![] }) });
    if variant != "noweak" {
        a.push(Act::New { dst: Dst::R(1), spec: Box::new(Spec { fin: vec![Act::Upgrade { src: WLoc::Of(Own::Me, 0), dst: Dst::G(0) }], drp: vec![DAct::UpgradeW(0)] }) });
    }
    for r in 0..3u8 {
        a.push(Act::Clone { src: Src::R(r), dst: Dst::R(3) });
    }
    for r in 0..4u8 {
        a.push(Act::Drop { dst: Dst::R(r) });
    }
    a.push(Act::Drop { dst: Dst::G(0) });
    for i in 0..3u8 {
        for j in 0..3u8 {
            a.push(Act::Clone { src: Src::R(i), dst: Dst::Slot(Own::R(j), false, 0) });
        }
        a.push(Act::Clone { src: Src::R(i), dst: Dst::Slot(Own::R((i + 1) % 3), true, 0) });
        a.push(Act::Drop { dst: Dst::Slot(Own::R(i), false, 0) });
        a.push(Act::MarkAlive { src: Src::R(i) });
        if i < 2 {
            // ManuallyDrop slot: traced, never released by the owner
            a.push(Act::Clone { src: Src::R((i + 1) % 3), dst: Dst::Slot(Own::R(i), false, NT as u8) });
        }
        a.push(Act::TryUnwrap { reg: Dst::R(i) });
    }
    a.push(Act::Collect);
    if variant != "noweak" {
        for i in 0..3u8 {
            a.push(Act::Downgrade { src: Src::R(i), dst: WLoc::WR(0) });
            a.push(Act::Downgrade { src: Src::R(i), dst: WLoc::Of(Own::R(i), 0) });
        }
        a.push(Act::Upgrade { src: WLoc::WR(0), dst: Dst::R(3) });
        a.push(Act::WDrop { dst: WLoc::WR(0) });
    }
    if variant == "cleaners" {
        for i in 0..2u8 {
            a.push(Act::Register { own: Own::R(i), action: Box::new(ActionSpec { cap: None, wcap: Some(WLoc::WR(0)), script: vec![Act::Upgrade { src: WLoc::Cap, dst: Dst::G(0) }] }), dst: i });
            a.push(Act::Clean { c: i });
        }
    }
    a
}

pub fn run(sh: &mut Shard, depth: usize, variant: &str, shard: u64, nshards: u64, max_runs: u64, faults: bool) {
    let alpha = alphabet(variant);
    let mut seen: HashSet<u64> = HashSet::new();
    let mut frontier: Vec<Vec<u16>> = vec![vec![]];
    let mut runs = 0u64;
    let mut exhausted = true;
    let cfg = RunCfg { mode: sh.cfg.mode.clone(), props: sh.cfg.props.clone(), verbose: false, leak_check: sh.cfg.leak_check };
    'outer: for d in 1..=depth {
        let mut next: Vec<Vec<u16>> = Vec::new();
        for path in frontier.iter() {
            for (ai, _) in alpha.iter().enumerate() {
                if d == 2 && (ai as u64) % nshards != shard {
                    continue;
                }
                if runs >= max_runs {
                    exhausted = false;
                    break 'outer;
                }
                let mut p = path.clone();
                p.push(ai as u16);
                let h = History { ops: p.iter().map(|i| alpha[*i as usize].clone()).collect(), label: format!("exhaust:{}:{}", variant, p.iter().map(|x| x.to_string()).collect::<Vec<_>>().join(".")) };
                let out = run_history(&h, &cfg, None, None);
                runs += 1;
                sh.rep.evaluations += 1;
                let path_arg = vec!["--variant".to_string(), variant.to_string(), "--path".to_string(), p.iter().map(|x| x.to_string()).collect::<Vec<_>>().join(".")];
                sh.report(&h, &out, &path_arg, None, None);
                if sh.stop {
                    break 'outer;
                }
                let novel = seen.insert(out.state_hash);
                if novel {
                    sh.rep.count("novel_states", 1);
                    if out.nontrivial {
                        sh.rep.nontrivial(h.hash());
                        if sh.rep.samples.len() < 2 && d >= 3 {
                            sh.rep.sample(Json::obj().set("label", h.label.as_str()).set("ops", h.render().into_iter().map(Json::from).collect::<Vec<_>>()));
                        }
                    }
                    if faults && out.viols.is_empty() {
                        for kind in 0..N_CB {
                            for k in 1..=out.cb_counts[kind] {
                                let f = crate::world::Fault { kind: kind as u8, k };
                                let o = run_history(&h, &cfg, Some(f), None);
                                sh.rep.evaluations += 1;
                                sh.rep.count("fault_points_enumerated", 1);
                                if o.fired > 0 {
                                    sh.rep.count("fault_points_hit", 1);
                                    sh.rep.set_add("fault_kinds_hit", Cb::from_u8(f.kind).map_or("?", |c| c.name()));
                                }
                                let mut pa = path_arg.clone();
                                pa.push("--fault".into());
                                pa.push(format!("{}:{}", f.kind, f.k));
                                sh.report(&h, &o, &pa, None, None);
                                if o.nontrivial {
                                    let mut hh = vcommon::rng::Fnv::new();
                                    hh.u64(h.hash());
                                    hh.u64(kind as u64);
                                    hh.u64(k);
                                    sh.rep.nontrivial(hh.finish());
                                }
                                if sh.stop {
                                    break 'outer;
                                }
                            }
                        }
                    }
                    if d < depth {
                        next.push(p);
                    }
                }
            }
        }
        sh.rep.count(&format!("frontier_depth_{}", d), next.len() as u64);
        sh.rep.max("depth_completed", d as u64);
        frontier = next;
    }
    sh.rep.count("exhaust_runs", runs);
    sh.rep.count("exhaust_alphabet", alpha.len() as u64);
    if !exhausted {
        sh.rep.count("exhaust_budget_hit", 1);
    }
}

/// Replay of one path.
pub fn replay(sh: &mut Shard, variant: &str, path: &str, fault: Option<crate::world::Fault>) {
    let alpha = alphabet(variant);
    let p: Vec<usize> = path.split('.').filter_map(|x| x.parse().ok()).collect();
    let h = History { ops: p.iter().filter_map(|i| alpha.get(*i).cloned()).collect(), label: format!("exhaust:{}:{}", variant, path) };
    let out = run_history(&h, &sh.cfg, fault, None);
    sh.rep.evaluations += 1;
    for l in crate::world::w().trace_log.borrow().iter() {
        eprintln!("{}", l);
    }
    for v in &out.viols {
        eprintln!("ORACLE {} {} {} :: {}", v.prop, v.oracle, v.sig, v.detail);
    }
    sh.report(&h, &out, &["--variant".to_string(), variant.to_string(), "--path".to_string(), path.to_string()], None, None);
}
