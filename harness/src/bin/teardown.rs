//! C19 teardown matrix: a thread (or the main thread) exits while user thread-locals still hold Ccs / while objects
//! are still buffered, for both destruction orders of the user's thread-local versus the collector's own.
//! One cell per invocation of `cell()`. Thread cells run in-process (the thread is joined, then the drop counters and
//! the allocator ground truth are checked); main-thread cells run as child processes whose exit status is the
//! observation (`--child CELL`), or directly as the process itself under Miri / sanitizers (`--main-cell CELL`).
use rust_cc::*;
#[cfg(feature = "cleaners")]
use rust_cc::cleaners::Cleaner;
#[cfg(feature = "weak-ptrs")]
use rust_cc::weak::Weak;
use std::cell::{Cell, RefCell};
use std::sync::atomic::{AtomicU32, Ordering};
use vcommon::alloc::{self as valloc, MonAlloc};
use vcommon::report::{Args, Report};

#[global_allocator]
static GLOBAL: MonAlloc = MonAlloc;

const MAXOBJ: usize = 64;
static DROPS: [AtomicU32; MAXOBJ] = [const { AtomicU32::new(0) }; MAXOBJ];
static ACTIONS: [AtomicU32; MAXOBJ] = [const { AtomicU32::new(0) }; MAXOBJ];
static NEXT: AtomicU32 = AtomicU32::new(0);
const MAGIC: u64 = 0x7EA2_D0C0_FFEE_0001;

struct TNode {
    canary: u64,
    id: usize,
    next: RefCell<Option<Cc<TNode>>>,
    #[cfg(feature = "weak-ptrs")]
    me: RefCell<Option<Weak<TNode>>>,
    #[cfg(feature = "cleaners")]
    cleaner: Cleaner,
}

unsafe impl Trace for TNode {
    fn trace(&self, ctx: &mut Context<'_>) {
        self.next.trace(ctx);
    }
}
impl Finalize for TNode {
    fn finalize(&self) {
        if self.canary != MAGIC ^ self.id as u64 {
            eprintln!("TEARDOWN-ORACLE finalize on a dead object");
            std::process::abort();
        }
    }
}
impl Drop for TNode {
    fn drop(&mut self) {
        if self.canary != MAGIC ^ self.id as u64 {
            eprintln!("TEARDOWN-ORACLE double drop or drop of freed memory (id field {})", self.id);
            std::process::abort();
        }
        self.canary = 0xDEAD;
        DROPS[self.id % MAXOBJ].fetch_add(1, Ordering::SeqCst);
    }
}

fn node() -> Cc<TNode> {
    let id = NEXT.fetch_add(1, Ordering::SeqCst) as usize % MAXOBJ;
    DROPS[id].store(0, Ordering::SeqCst);
    ACTIONS[id].store(0, Ordering::SeqCst);
    Cc::new(TNode {
        canary: MAGIC ^ id as u64,
        id,
        next: RefCell::new(None),
        #[cfg(feature = "weak-ptrs")]
        me: RefCell::new(None),
        #[cfg(feature = "cleaners")]
        cleaner: Cleaner::new(),
    })
}

thread_local! {
    static USER: RefCell<Vec<Cc<TNode>>> = const { RefCell::new(Vec::new()) };
    #[cfg(feature = "weak-ptrs")]
    static USER_WEAK: RefCell<Vec<Weak<TNode>>> = const { RefCell::new(Vec::new()) };
}

/// What the user's own thread-local destructor does when it runs (possibly after the collector's thread-locals are gone):
/// ordinary public operations, which must neither crash nor leave the collector state wrong.
pub const LATES: [&str; 6] = ["none", "collect", "alloc", "cfg_alloc", "weak", "cleaner"];

struct Late {
    action: Cell<usize>,
}
thread_local! {
    static LATE: Late = const { Late { action: Cell::new(0) } };
}

fn oracle_fail(msg: &str) -> ! {
    eprintln!("TEARDOWN-ORACLE {}", msg);
    std::process::abort();
}

fn not_tracing(at: &str) {
    // outside of every collection none of the phase flags may read true (an Err = state already destroyed is fine)
    if let Ok(true) = state::is_tracing() {
        oracle_fail(&format!("state::is_tracing() reads true outside of a collection ({})", at));
    }
}

fn small_churn() {
    let a = node();
    let b = node();
    *a.next.borrow_mut() = Some(b.clone());
    *b.next.borrow_mut() = Some(a.clone());
    let c = a.clone();
    drop(c);
    if a.strong_count() != 2 || b.strong_count() != 2 {
        oracle_fail("strong counts wrong in a late destructor");
    }
    drop(a);
    drop(b);
}

impl Drop for Late {
    fn drop(&mut self) {
        let what = LATES[self.action.get() % LATES.len()];
        match what {
            "collect" => {
                collect_cycles();
                not_tracing("after collect_cycles in a late destructor");
                small_churn();
                collect_cycles();
                not_tracing("after the second collect_cycles in a late destructor");
                let u = node();
                match u.try_unwrap() {
                    Ok(n) => drop(n),
                    Err(_) => oracle_fail("try_unwrap of a fresh unique Cc refused in a late destructor"),
                }
            }
            "alloc" | "cfg_alloc" => {
                for _ in 0..3 {
                    small_churn();
                }
                let keep = node();
                let k2 = keep.clone();
                drop(k2);
                drop(keep);
                not_tracing("after allocations in a late destructor");
            }
            "weak" => {
                #[cfg(feature = "weak-ptrs")]
                {
                    let a = node();
                    let w = a.downgrade();
                    let up = w.upgrade();
                    if up.is_none() || w.strong_count() != 2 {
                        oracle_fail("upgrade / strong_count wrong in a late destructor");
                    }
                    drop(up);
                    drop(a);
                    if w.upgrade().is_some() {
                        oracle_fail("upgrade of a dead object succeeded in a late destructor");
                    }
                    let c = Cc::new_cyclic(|w: &Weak<TNode>| {
                        let id = NEXT.fetch_add(1, Ordering::SeqCst) as usize % MAXOBJ;
                        DROPS[id].store(0, Ordering::SeqCst);
                        TNode {
                            canary: MAGIC ^ id as u64,
                            id,
                            next: RefCell::new(None),
                            me: RefCell::new(Some(w.clone())),
                            #[cfg(feature = "cleaners")]
                            cleaner: Cleaner::new(),
                        }
                    });
                    drop(c);
                }
            }
            "cleaner" => {
                #[cfg(feature = "cleaners")]
                {
                    let a = node();
                    let id = a.id;
                    let c1 = a.cleaner.register(move || {
                        ACTIONS[id].fetch_add(1, Ordering::SeqCst);
                    });
                    let _c2 = a.cleaner.register(move || {
                        ACTIONS[id].fetch_add(1, Ordering::SeqCst);
                    });
                    c1.clean();
                    drop(a);
                    if ACTIONS[id].load(Ordering::SeqCst) != 2 {
                        oracle_fail("cleaning actions did not run exactly once each in a late destructor");
                    }
                }
            }
            _ => {}
        }
        if what != "none" {
            eprintln!("LATE-RAN {}", what);
        }
    }
}

/// Fixed-size id list (no allocation under the crate tag that another thread would release).
#[derive(Default, Clone, Copy)]
struct Ids {
    v: [usize; 4],
    n: usize,
}
impl Ids {
    fn push(&mut self, id: usize) {
        if self.n < 4 {
            self.v[self.n] = id;
            self.n += 1;
        }
    }
    fn iter(&self) -> impl Iterator<Item = &usize> {
        self.v[..self.n].iter()
    }
}

pub const OBJS: [&str; 6] = ["unique", "buffered", "cycle", "cycle_buffered_held", "weak", "cleaner"];
pub const ORDERS: [&str; 2] = ["user_first", "collector_first"];

/// Sets the scene on the current thread; returns the ids involved. `order` decides which thread-local is
/// registered (first touched) first, hence destroyed last.
fn scene(order: &str, obj: &str, late: &str) -> Ids {
    #[cfg(feature = "auto-collect")]
    let _ = rust_cc::config::config(|c| c.set_auto_collect(false));
    let late_idx = LATES.iter().position(|l| *l == late).unwrap_or(0);
    if order == "user_first" {
        // user's thread-local registered first => destroyed after the collector's
        if late_idx != 0 {
            LATE.with(|l| l.action.set(late_idx));
        }
        USER.with(|u| u.borrow_mut().reserve(4));
        #[cfg(feature = "weak-ptrs")]
        USER_WEAK.with(|u| u.borrow_mut().reserve(4));
    } else {
        // collector's thread-locals registered first: make it buffer and un-buffer something
        let a = node();
        let b = a.clone();
        drop(b);
        a.mark_alive();
        collect_cycles();
        drop(a);
        if late_idx != 0 {
            LATE.with(|l| l.action.set(late_idx));
        }
    }
    #[cfg(feature = "auto-collect")]
    if late == "cfg_alloc" {
        // automatic collection stays on with a buffered-objects threshold: every Cc::new of the late destructor
        // evaluates the trigger condition
        let _ = rust_cc::config::config(|c| {
            c.set_auto_collect(true);
            c.set_buffered_objects_threshold(std::num::NonZeroUsize::new(1));
        });
    }
    let mut ids = Ids::default();
    match obj {
        "unique" => {
            let a = node();
            ids.push(a.id);
            USER.with(|u| u.borrow_mut().push(a));
        }
        "buffered" => {
            let a = node();
            ids.push(a.id);
            let b = a.clone();
            USER.with(|u| u.borrow_mut().push(a));
            drop(b); // buffers the object; it stays buffered at exit
        }
        "cycle" => {
            let a = node();
            let b = node();
            ids.push(a.id);
            ids.push(b.id);
            *a.next.borrow_mut() = Some(b.clone());
            *b.next.borrow_mut() = Some(a.clone());
            drop(b);
            drop(a); // garbage cycle, both buffered, nobody collects before exit
        }
        "cycle_buffered_held" => {
            let a = node();
            let b = node();
            ids.push(a.id);
            ids.push(b.id);
            *a.next.borrow_mut() = Some(b.clone());
            *b.next.borrow_mut() = Some(a.clone());
            drop(b);
            let a2 = a.clone();
            USER.with(|u| u.borrow_mut().push(a));
            drop(a2);
        }
        "weak" => {
            #[cfg(feature = "weak-ptrs")]
            {
                let a = node();
                ids.push(a.id);
                *a.me.borrow_mut() = Some(a.downgrade());
                USER_WEAK.with(|u| u.borrow_mut().push(a.downgrade()));
                let b = a.clone();
                USER.with(|u| u.borrow_mut().push(a));
                drop(b);
            }
        }
        "cleaner" => {
            #[cfg(feature = "cleaners")]
            {
                let a = node();
                ids.push(a.id);
                let id = a.id;
                let c1 = a.cleaner.register(move || {
                    ACTIONS[id].fetch_add(1, Ordering::SeqCst);
                });
                let _c2 = a.cleaner.register(move || {
                    ACTIONS[id].fetch_add(1, Ordering::SeqCst);
                });
                c1.clean();
                let b = a.clone();
                USER.with(|u| u.borrow_mut().push(a));
                drop(b);
            }
        }
        _ => {}
    }
    ids
}

fn applicable(obj: &str) -> bool {
    match obj {
        "weak" => cfg!(feature = "weak-ptrs"),
        "cleaner" => cfg!(feature = "cleaners"),
        "cfg_alloc" => cfg!(feature = "auto-collect"),
        _ => true,
    }
}

fn thread_cell(rep: &mut Report, order: &'static str, obj: &'static str) {
    let ids = std::thread::spawn(move || {
        valloc::set_tag(valloc::TAG_CRATE);
        scene(order, obj, "none")
    }).join();
    let name = format!("thread/{}/{}", order, obj);
    rep.evaluations += 1;
    rep.set_add("cells", name.clone());
    match ids {
        Err(_) => rep.viol("C19", "teardown_panic", &format!("C19:teardown_panic:{}", name), "the exiting thread panicked", &["--only".into(), name.clone()]),
        Ok(ids) => {
            for id in ids.iter() {
                let d = DROPS[*id].load(Ordering::SeqCst);
                if d > 1 {
                    rep.viol("C19", "teardown_double_drop", &format!("C19:teardown_double_drop:{}", name), &format!("object {} dropped {} times during thread teardown", id, d), &["--only".into(), name.clone()]);
                }
                rep.count("objects_observed", 1);
                rep.count("objects_dropped_at_teardown", d as u64);
                let a = ACTIONS[*id].load(Ordering::SeqCst);
                if a > 2 {
                    rep.viol("C19", "teardown_action_twice", &format!("C19:teardown_action_twice:{}", name), &format!("cleaning actions of object {} ran {} times in total (2 registered)", id, a), &["--only".into(), name.clone()]);
                }
            }
            let mut h = vcommon::rng::Fnv::new();
            h.str(&name);
            rep.nontrivial(h.finish());
        }
    }
    for e in valloc::take_errors() {
        rep.viol("C19", "teardown_allocator", &format!("C19:teardown_{:?}:{}", e.kind, name), &format!("allocator ground truth during teardown: {:?}", e), &["--only".into(), name.clone()]);
    }
}

fn main() {
    let args = Args::from_env();
    if args.flag("--noop") {
        return;
    }
    valloc::set_mode(valloc::MODE_TRACK);
    // a cell played by the main thread of this very process: the exit status is the observation
    if let Some(cell) = args.get("--main-cell") {
        let mut it = cell.split('/');
        let (order, obj, late) = (it.next().unwrap_or(""), it.next().unwrap_or(""), it.next().unwrap_or("none"));
        let order: &'static str = ORDERS.iter().find(|o| **o == order).copied().unwrap_or("user_first");
        let obj: &'static str = OBJS.iter().find(|o| **o == obj).copied().unwrap_or("unique");
        let late: &'static str = LATES.iter().find(|o| **o == late).copied().unwrap_or("none");
        if args.flag("--in-thread") {
            // the cell is played by a spawned thread of this process; a panic / abort in its thread-local destructors
            // takes the process down, which is the observation
            let r = std::thread::spawn(move || {
                valloc::set_tag(valloc::TAG_CRATE);
                let _ = scene(order, obj, late);
            }).join();
            if r.is_err() {
                oracle_fail("the exiting thread panicked");
            }
            return;
        }
        valloc::set_tag(valloc::TAG_CRATE);
        let _ = scene(order, obj, late);
        if !args.flag("--quiet") {
            let mut rep = Report::new();
            rep.evaluations = 1;
            let mut h = vcommon::rng::Fnv::new();
            h.str("main");
            h.str(cell);
            rep.nontrivial(h.finish());
            rep.set_add("cells", format!("main/{}", cell));
            rep.sample(vcommon::Json::obj().set("cell", format!("main/{}", cell)).set("note", "main thread returns with the scene in place; exit status is the observation"));
            rep.emit();
        }
        return; // thread-local destructors of the main thread run (or are skipped) after this
    }
    let mut rep = Report::new();
    let only = args.get("--only").map(|s| s.to_string());
    for order in ORDERS {
        for obj in OBJS {
            if !applicable(obj) {
                continue;
            }
            let name = format!("thread/{}/{}", order, obj);
            if only.as_ref().map_or(true, |o| *o == name) {
                for _ in 0..args.u64("--repeat", 1) {
                    thread_cell(&mut rep, order, obj);
                }
            }
            // cells played by child processes: the main thread returning, or a spawned thread exiting, with every
            // kind of late user destructor (not under Miri: no process spawning there)
            if args.flag("--no-children") {
                continue;
            }
            for late in LATES {
                if !applicable(late) {
                    continue;
                }
                for in_thread in [false, true] {
                    if in_thread && late == "none" {
                        continue; // that is the in-process thread cell above
                    }
                    let mname = format!("{}/{}/{}/{}", if in_thread { "tchild" } else { "main" }, order, obj, late);
                    if !only.as_ref().map_or(true, |o| *o == mname) {
                        continue;
                    }
                    let exe = std::env::current_exe().unwrap();
                    let mut cmd = std::process::Command::new(exe);
                    cmd.args(["--main-cell", &format!("{}/{}/{}", order, obj, late), "--quiet"]);
                    if in_thread {
                        cmd.arg("--in-thread");
                    }
                    match cmd.output() {
                        Ok(out) => {
                            rep.evaluations += 1;
                            rep.set_add("cells", mname.clone());
                            rep.count("child_processes", 1);
                            let err = String::from_utf8_lossy(&out.stderr);
                            if late != "none" {
                                if err.contains("LATE-RAN") {
                                    rep.count("late_destructors_observed", 1);
                                    rep.set_add("late_kinds_observed", format!("{}/{}", order, late));
                                } else {
                                    rep.count("late_destructors_not_run", 1);
                                }
                            }
                            if !out.status.success() {
                                rep.viol("C19", "teardown_main_exit", &format!("C19:teardown_main_exit:{}", mname), &format!("child exited with {:?}: {}", out.status, err.chars().take(400).collect::<String>()), &["--only".into(), mname.clone()]);
                            } else {
                                let mut h = vcommon::rng::Fnv::new();
                                h.str(&mname);
                                rep.nontrivial(h.finish());
                            }
                        }
                        Err(e) => rep.inconclusive(format!("could not spawn child: {}", e)),
                    }
                }
            }
        }
    }
    rep.sample(vcommon::Json::obj().set("cells", rep.sets.get("cells").map(|s| s.iter().take(8).cloned().collect::<Vec<_>>().join(", ")).unwrap_or_default()));
    rep.emit();
}
