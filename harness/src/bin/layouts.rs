//! Layout grid for C03 / C13 (DESIGN.md section 3 C03, section 4 C13): payloads over size {0,1,3,8,24,100,1000,4096}
//! x alignment {1,2,8,64,512,4096} (each a distinct monomorphisation, enumerated by macro) go through every way a
//! managed allocation is created and released; the instrumented allocator is the ground truth for "released exactly
//! once, with exactly the layout it was allocated with", the hooks' box observer tells boxes from side records.
use rust_cc::verif::{self, ObsKind};
#[cfg(feature = "weak-ptrs")]
use rust_cc::weak::Weak;
use rust_cc::*;
use std::cell::{Cell, RefCell};
use std::panic::{catch_unwind, AssertUnwindSafe};
use vcommon::alloc::{self as valloc, MonAlloc};
use vcommon::report::{Args, Report};

#[global_allocator]
static GLOBAL: MonAlloc = MonAlloc;

trait Pay: 'static + Sized {
    const NAME: &'static str;
    fn make(tag: u8) -> Self;
    fn ok(&self, tag: u8) -> bool;
}

macro_rules! layouts {
    ($( $name:ident : $size:literal , $align:literal ; )*) => {
        $(
            #[repr(C, align($align))]
            struct $name { b: [u8; $size] }
            unsafe impl Trace for $name {
                fn trace(&self, _: &mut Context<'_>) {}
            }
            impl Finalize for $name {}
            impl Pay for $name {
                const NAME: &'static str = concat!("s", stringify!($size), "a", stringify!($align));
                fn make(tag: u8) -> Self { $name { b: [tag; $size] } }
                fn ok(&self, tag: u8) -> bool { self.b.iter().all(|x| *x == tag) }
            }
        )*
        fn all_layouts(ctx: &mut Ctx) {
            $( run_layout::<$name>(ctx); )*
        }
    };
}

layouts! {
    S0A1: 0, 1; S1A1: 1, 1; S3A1: 3, 1; S8A1: 8, 1; S24A1: 24, 1; S100A1: 100, 1; S1000A1: 1000, 1; S4096A1: 4096, 1;
    S0A2: 0, 2; S1A2: 1, 2; S3A2: 3, 2; S8A2: 8, 2; S24A2: 24, 2; S100A2: 100, 2; S1000A2: 1000, 2; S4096A2: 4096, 2;
    S0A8: 0, 8; S1A8: 1, 8; S3A8: 3, 8; S8A8: 8, 8; S24A8: 24, 8; S100A8: 100, 8; S1000A8: 1000, 8; S4096A8: 4096, 8;
    S0A64: 0, 64; S1A64: 1, 64; S3A64: 3, 64; S8A64: 8, 64; S24A64: 24, 64; S100A64: 100, 64; S1000A64: 1000, 64; S4096A64: 4096, 64;
    S0A512: 0, 512; S1A512: 1, 512; S3A512: 3, 512; S8A512: 8, 512; S24A512: 24, 512; S100A512: 100, 512; S1000A512: 1000, 512; S4096A512: 4096, 512;
    S0A4096: 0, 4096; S1A4096: 1, 4096; S3A4096: 3, 4096; S8A4096: 8, 4096; S24A4096: 24, 4096; S100A4096: 100, 4096; S1000A4096: 1000, 4096; S4096A4096: 4096, 4096;
}

thread_local! {
    static DROPS: Cell<u32> = const { Cell::new(0) };
    static FINS: Cell<u32> = const { Cell::new(0) };
    static BAD: Cell<u32> = const { Cell::new(0) };
    static BOXES: RefCell<Vec<(usize, usize, usize)>> = const { RefCell::new(Vec::new()) };
    static BOX_EVENTS: Cell<u32> = const { Cell::new(0) };
    static SIDE_LIVE: Cell<i32> = const { Cell::new(0) };
    static OBS_ERR: RefCell<Vec<String>> = const { RefCell::new(Vec::new()) };
    static RESURRECT: RefCell<Vec<Box<dyn std::any::Any>>> = const { RefCell::new(Vec::new()) };
    static RESURRECT_ON: Cell<bool> = const { Cell::new(false) };
}

const MAGIC: u64 = 0xA11C_0DE5_1234_0000;

struct LNode<P: Pay> {
    canary: Cell<u64>,
    tag: u8,
    next: RefCell<Option<Cc<LNode<P>>>>,
    #[cfg(feature = "weak-ptrs")]
    me: RefCell<Option<Weak<LNode<P>>>>,
    p: P,
}

impl<P: Pay> LNode<P> {
    fn new(tag: u8) -> LNode<P> {
        LNode {
            canary: Cell::new(MAGIC ^ tag as u64),
            tag,
            next: RefCell::new(None),
            #[cfg(feature = "weak-ptrs")]
            me: RefCell::new(None),
            p: P::make(tag),
        }
    }
    fn intact(&self) -> bool {
        self.canary.get() == MAGIC ^ self.tag as u64 && self.p.ok(self.tag) && (&self.p as *const P as usize) % std::mem::align_of::<P>() == 0
    }
}

unsafe impl<P: Pay> Trace for LNode<P> {
    fn trace(&self, ctx: &mut Context<'_>) {
        self.next.trace(ctx);
    }
}

impl<P: Pay> Finalize for LNode<P> {
    fn finalize(&self) {
        FINS.with(|f| f.set(f.get() + 1));
        if !self.intact() {
            BAD.with(|b| b.set(b.get() + 1));
        }
        #[cfg(feature = "weak-ptrs")]
        if RESURRECT_ON.with(|r| r.get()) {
            if let Some(c) = self.me.borrow().as_ref().and_then(|w| w.upgrade()) {
                let _t = valloc::TagGuard::new(valloc::TAG_HARNESS);
                RESURRECT.with(|r| r.borrow_mut().push(Box::new(c)));
            }
        }
    }
}

impl<P: Pay> Drop for LNode<P> {
    fn drop(&mut self) {
        if !self.intact() {
            BAD.with(|b| b.set(b.get() + 1));
        }
        self.canary.set(0xDEAD);
        DROPS.with(|d| d.set(d.get() + 1));
    }
}

fn observer(kind: ObsKind, addr: usize, size: usize, align: usize) {
    let _t = valloc::TagGuard::new(valloc::TAG_HARNESS);
    match kind {
        ObsKind::BoxAlloc => {
            BOX_EVENTS.with(|b| b.set(b.get() + 1));
            let (is_alloc, p, s, a, _) = valloc::last_event();
            if !(is_alloc && p == addr && s == size && a == align) {
                OBS_ERR.with(|e| e.borrow_mut().push(format!("box alloc reported ({:#x},{},{}) but allocator saw ({},{:#x},{},{})", addr, size, align, is_alloc, p, s, a)));
            }
            BOXES.with(|b| b.borrow_mut().push((addr, size, align)));
        }
        ObsKind::BoxDealloc => {
            BOXES.with(|b| {
                let mut b = b.borrow_mut();
                match b.iter().position(|x| x.0 == addr) {
                    Some(i) => {
                        let r = b.swap_remove(i);
                        if r.1 != size || r.2 != align {
                            OBS_ERR.with(|e| e.borrow_mut().push(format!("box allocated as (size {}, align {}) released as (size {}, align {})", r.1, r.2, size, align)));
                        }
                    }
                    None => OBS_ERR.with(|e| e.borrow_mut().push(format!("box at {:#x} released but not allocated (double free?)", addr))),
                }
            });
        }
        ObsKind::OtherAlloc => SIDE_LIVE.with(|s| s.set(s.get() + 1)),
        ObsKind::OtherDealloc => SIDE_LIVE.with(|s| s.set(s.get() - 1)),
    }
}

struct Ctx {
    rep: Report,
    only: Option<String>,
    shard: u64,
    nshards: u64,
    idx: u64,
    props: Vec<String>,
}

fn reset() {
    DROPS.with(|d| d.set(0));
    FINS.with(|d| d.set(0));
    BAD.with(|d| d.set(0));
    BOX_EVENTS.with(|d| d.set(0));
    OBS_ERR.with(|e| e.borrow_mut().clear());
    RESURRECT_ON.with(|r| r.set(false));
}

/// Runs `f` (with the crate tag on) and then judges the allocator / observer ground truth common to all scenarios.
fn scenario<P: Pay>(ctx: &mut Ctx, name: &str, prop: &'static str, expect_drops: u32, f: impl FnOnce(&mut Vec<String>)) {
    let case = format!("{}/{}", P::NAME, name);
    ctx.idx += 1;
    if let Some(o) = &ctx.only {
        if *o != case {
            return;
        }
    } else if ctx.idx % ctx.nshards != ctx.shard {
        return;
    }
    reset();
    let base = state::allocated_bytes().unwrap_or(0);
    let side0 = SIDE_LIVE.with(|s| s.get());
    let mut errs: Vec<String> = Vec::new();
    {
        let _t = valloc::TagGuard::new(valloc::TAG_CRATE);
        f(&mut errs);
        collect_cycles();
        collect_cycles();
    }
    let d = DROPS.with(|d| d.get());
    if d != expect_drops {
        errs.push(format!("C03|drop_count|{} payload destructors ran, expected {}", d, expect_drops));
    }
    if BAD.with(|b| b.get()) > 0 {
        errs.push("C03|callback_on_dead_value|a destructor / finalizer ran on a value whose canary or payload bytes were wrong (dropped twice, freed, or never initialised)".to_string());
    }
    for e in OBS_ERR.with(|e| e.borrow().clone()) {
        errs.push(format!("C03|box_event|{}", e));
    }
    for e in valloc::take_errors() {
        use valloc::ErrKind::*;
        match e.kind {
            DoubleFree => errs.push(format!("C03|double_free|block of {} bytes released twice", e.other_size)),
            LayoutMismatch => errs.push(format!("C03|free_layout_mismatch|allocated (size {}, align {}) released (size {}, align {})", e.other_size, e.other_align, e.size, e.align)),
            ZeroSize => errs.push("C03|zero_size_alloc|zero-sized allocation requested".to_string()),
            WriteAfterFree => errs.push(format!("C03|write_after_free|freed block of {} bytes written at offset {}", e.size, e.other_size)),
            _ => {}
        }
    }
    let live = BOXES.with(|b| b.borrow().len());
    if live != 0 {
        errs.push(format!("C03|box_leaked|{} managed boxes still allocated at the end of the scenario", live));
        BOXES.with(|b| b.borrow_mut().clear());
    }
    if SIDE_LIVE.with(|s| s.get()) != side0 {
        errs.push(format!("C03|side_record_leaked|{} weak side records still allocated at the end of the scenario", SIDE_LIVE.with(|s| s.get()) - side0));
        SIDE_LIVE.with(|s| s.set(side0));
    }
    let mut v = Vec::new();
    let n = valloc::live_blocks(valloc::current_thread_id(), &mut v);
    if n != 0 {
        errs.push(format!("C03|crate_block_leaked|{} blocks allocated by the crate still live ({} bytes the first)", n, v.first().map_or(0, |b| b.size)));
        valloc::forget_live(valloc::current_thread_id());
    }
    let (_, dirty) = valloc::drain_quarantine();
    if dirty > 0 {
        let _ = valloc::take_errors();
        errs.push("C03|write_after_free|a freed block was written to".to_string());
    }
    let after = state::allocated_bytes().unwrap_or(0);
    if after != base {
        errs.push(format!("C03|allocated_bytes_drift|allocated_bytes() went from {} to {} over a scenario that released everything", base, after));
    }
    ctx.rep.evaluations += 1;
    ctx.rep.count("scenarios", 1);
    ctx.rep.count("box_events", BOX_EVENTS.with(|b| b.get()) as u64);
    ctx.rep.set_add("layouts", P::NAME);
    if std::mem::size_of::<P>() == 0 {
        ctx.rep.count("zst_scenarios", 1);
    }
    if std::mem::align_of::<P>() >= 64 {
        ctx.rep.count("overaligned_scenarios", 1);
    }
    let mut h = vcommon::rng::Fnv::new();
    h.str(&case);
    ctx.rep.nontrivial(h.finish());
    if ctx.rep.samples.len() < 3 {
        ctx.rep.sample(vcommon::Json::obj().set("case", case.as_str()).set("size_of", std::mem::size_of::<P>()).set("align_of", std::mem::align_of::<P>()).set("drops", d));
    }
    let _ = prop;
    for e in errs {
        let mut it = e.splitn(3, '|');
        let (p, o, d) = (it.next().unwrap_or("C03"), it.next().unwrap_or("?"), it.next().unwrap_or(""));
        let p: &'static str = match p {
            "C13" => "C13",
            "C11" => "C11",
            _ => "C03",
        };
        if ctx.props.iter().any(|x| x == p) {
            ctx.rep.viol(p, o, &format!("{}:{}:{}", p, o, case), &format!("{} [{}: size_of {} align_of {}]", d, case, std::mem::size_of::<P>(), std::mem::align_of::<P>()), &["--only".to_string(), case.clone()]);
        } else {
            ctx.rep.count("foreign_oracle_hits", 1);
        }
    }
}

fn check_box_layout<P: Pay>(errs: &mut Vec<String>, cc: &Cc<LNode<P>>) {
    let payload = &**cc as *const LNode<P> as usize;
    if payload % std::mem::align_of::<LNode<P>>() != 0 {
        errs.push(format!("C03|misaligned_value|value at {:#x} is not aligned to {}", payload, std::mem::align_of::<LNode<P>>()));
    }
    let addr = verif::box_addr(cc);
    let rec = BOXES.with(|b| b.borrow().iter().find(|x| x.0 == addr).copied());
    match rec {
        None => errs.push("C03|box_event|no allocation event for this object's box".to_string()),
        Some((a, s, al)) => {
            if al < std::mem::align_of::<LNode<P>>() || payload + std::mem::size_of::<LNode<P>>() > a + s || payload < a {
                errs.push(format!("C03|box_layout|box (addr {:#x}, size {}, align {}) cannot hold the value (at {:#x}, size {}, align {})", a, s, al, payload, std::mem::size_of::<LNode<P>>(), std::mem::align_of::<LNode<P>>()));
            }
        }
    }
    if !cc.intact() {
        errs.push("C03|value_damaged|payload bytes / canary wrong right after creation".to_string());
    }
}

fn run_layout<P: Pay + Trace>(ctx: &mut Ctx) {
    // 0. the payload itself as the managed value (no drop glue, possibly zero-sized): enters the buffer when one of
    //    two handles is dropped, leaves it on mark_alive / clone / collection, like any other managed value (C11)
    scenario::<P>(ctx, "plain_buffering", "C11", 0, |e| {
        let b0 = state::buffered_objects_count().unwrap_or(0);
        let a = Cc::new(P::make(11));
        if (&*a as *const P as usize) % std::mem::align_of::<P>() != 0 || !a.ok(11) {
            e.push("C03|misaligned_value|plain payload misaligned or damaged".into());
        }
        let b = a.clone();
        drop(b);
        if state::buffered_objects_count().unwrap_or(0) != b0 + 1 {
            e.push(format!("C11|not_buffered|buffered_objects_count() is {} after one of two Ccs to a plain value was dropped (expected {})", state::buffered_objects_count().unwrap_or(0), b0 + 1));
        }
        a.mark_alive();
        if state::buffered_objects_count().unwrap_or(0) != b0 {
            e.push("C11|still_buffered|mark_alive did not take a plain value out of the buffer".into());
        }
        let b = a.clone();
        drop(b);
        let c = a.clone();
        if state::buffered_objects_count().unwrap_or(0) != b0 {
            e.push("C11|still_buffered|clone did not take a plain value out of the buffer".into());
        }
        drop(c);
        collect_cycles();
        if state::buffered_objects_count().unwrap_or(1) != 0 {
            e.push("C11|still_buffered|a collection left a plain value in the buffer".into());
        }
        if a.strong_count() != 1 || !a.ok(11) {
            e.push("C03|value_damaged|plain value damaged by buffering traffic".into());
        }
        drop(a);
    });
    // 1. plain reference counting
    scenario::<P>(ctx, "rc", "C03", 1, |e| {
        let a = Cc::new(LNode::<P>::new(1));
        check_box_layout(e, &a);
        let b = a.clone();
        drop(a);
        if !b.intact() {
            e.push("C03|value_damaged|value damaged after a clone was dropped".into());
        }
        drop(b);
        if DROPS.with(|d| d.get()) != 1 || !BOXES.with(|b| b.borrow().is_empty()) {
            e.push("C03|not_prompt|the value / its box was not released before the last drop returned".into());
        }
    });
    // 2. cycle reclaimed by the collector
    scenario::<P>(ctx, "cycle", "C03", 2, |e| {
        let a = Cc::new(LNode::<P>::new(2));
        let b = Cc::new(LNode::<P>::new(3));
        check_box_layout(e, &b);
        *a.next.borrow_mut() = Some(b.clone());
        *b.next.borrow_mut() = Some(a.clone());
        drop(a);
        drop(b);
        collect_cycles();
        if DROPS.with(|d| d.get()) != 2 || !BOXES.with(|b| b.borrow().is_empty()) {
            e.push("C03|not_prompt|the cycle was not dropped and released by the time collect_cycles() returned".into());
        }
    });
    // 3. try_unwrap of a unique pointer: fresh
    scenario::<P>(ctx, "unwrap_fresh", "C13", 1, |e| {
        let a = Cc::new(LNode::<P>::new(4));
        let d0 = DROPS.with(|d| d.get());
        match a.try_unwrap() {
            Ok(v) => {
                if !v.intact() {
                    e.push("C13|value_damaged|value moved out by try_unwrap is damaged".into());
                }
                if DROPS.with(|d| d.get()) != d0 || FINS.with(|f| f.get()) != 0 {
                    e.push("C13|ran_callbacks|try_unwrap ran a finalizer or destructor".into());
                }
                if !BOXES.with(|b| b.borrow().is_empty()) {
                    e.push("C13|box_not_released|try_unwrap returned Ok but the allocation was not released".into());
                }
                drop(v);
            }
            Err(_) => e.push("C13|err_unique|try_unwrap returned Err for a unique pointer".into()),
        }
    });
    // 4. try_unwrap of a unique pointer that is buffered, after a collection processed it, and shared -> Err
    scenario::<P>(ctx, "unwrap_buffered_shared", "C13", 1, |e| {
        let a = Cc::new(LNode::<P>::new(5));
        let b = a.clone();
        let addr = &*a as *const LNode<P> as usize;
        let a = match a.try_unwrap() {
            Ok(_) => {
                e.push("C13|ok_shared|try_unwrap returned Ok although strong_count() was 2".into());
                return;
            }
            Err(c) => c,
        };
        if &*a as *const LNode<P> as usize != addr || a.strong_count() != 2 {
            e.push("C13|err_changed|try_unwrap(Err) handed back a different pointer or changed the count".into());
        }
        drop(b); // a is buffered now
        if state::buffered_objects_count().unwrap_or(0) == 0 {
            e.push("C13|not_buffered|dropping one of two handles did not buffer the object".into());
        }
        match a.try_unwrap() {
            Ok(v) => {
                if !v.intact() {
                    e.push("C13|value_damaged|value moved out by try_unwrap is damaged".into());
                }
                if state::buffered_objects_count().unwrap_or(1) != 0 {
                    e.push("C13|still_buffered|the unwrapped object's allocation is still buffered".into());
                }
                if !BOXES.with(|b| b.borrow().is_empty()) {
                    e.push("C13|box_not_released|try_unwrap returned Ok but the allocation was not released".into());
                }
            }
            Err(_) => e.push("C13|err_unique|try_unwrap returned Err for a unique (buffered) pointer".into()),
        }
    });
    #[cfg(feature = "weak-ptrs")]
    {
        // 5. try_unwrap with a side record: no Weak left / one Weak left
        for weaks in 0..2u32 {
            scenario::<P>(ctx, if weaks == 0 { "unwrap_side_record_no_weak" } else { "unwrap_one_weak" }, "C13", 1, |e| {
                let a = Cc::new(LNode::<P>::new(6));
                let w1 = a.downgrade();
                let w2 = if weaks == 1 { Some(w1.clone()) } else { None };
                drop(w1);
                match a.try_unwrap() {
                    Ok(v) => {
                        if !v.intact() {
                            e.push("C13|value_damaged|value moved out by try_unwrap is damaged".into());
                        }
                        if !BOXES.with(|b| b.borrow().is_empty()) {
                            e.push("C13|box_not_released|try_unwrap returned Ok but the allocation was not released".into());
                        }
                        if let Some(w) = &w2 {
                            if w.upgrade().is_some() || w.strong_count() != 0 || w.weak_count() != 1 {
                                e.push("C13|weak_alive_after_unwrap|a Weak still upgrades / counts after try_unwrap moved the value out".into());
                            }
                        }
                    }
                    Err(_) => e.push("C13|err_unique|try_unwrap returned Err for a unique pointer with a side record".into()),
                }
                drop(w2);
            });
        }
        // 6. weak outlives the value (rc path and collector path)
        scenario::<P>(ctx, "weak_outlives", "C03", 2, |e| {
            let a = Cc::new(LNode::<P>::new(7));
            let w = a.downgrade();
            drop(a);
            if w.upgrade().is_some() || w.strong_count() != 0 {
                e.push("C03|weak_alive|Weak upgrades after the value was released".into());
            }
            let b = Cc::new(LNode::<P>::new(8));
            *b.next.borrow_mut() = Some(b.clone());
            let w2 = b.downgrade();
            drop(b);
            collect_cycles();
            if w2.upgrade().is_some() || w2.weak_count() != 1 {
                e.push("C03|weak_alive|Weak upgrades after the cycle was collected".into());
            }
            drop(w);
            drop(w2);
        });
        // 7. new_cyclic ok
        scenario::<P>(ctx, "new_cyclic", "C03", 1, |e| {
            let mut inside_dead = true;
            let a = Cc::new_cyclic(|w: &Weak<LNode<P>>| {
                inside_dead = w.upgrade().is_none() && w.strong_count() == 0;
                let n = LNode::<P>::new(9);
                *n.me.borrow_mut() = Some(w.clone());
                n
            });
            if !inside_dead {
                e.push("C03|cyclic_weak_alive|the Weak given to new_cyclic was alive inside the closure".into());
            }
            check_box_layout(e, &a);
            let up = a.me.borrow().as_ref().and_then(|w| w.upgrade());
            match up {
                Some(u) => {
                    if !Cc::ptr_eq(&u, &a) {
                        e.push("C03|cyclic_weak_other|the saved Weak upgrades to another allocation".into());
                    }
                }
                None => e.push("C03|cyclic_weak_dead|the saved Weak does not upgrade after new_cyclic returned".into()),
            }
            drop(a);
        });
        // 8. new_cyclic whose closure panics: nothing dropped, everything released
        scenario::<P>(ctx, "new_cyclic_panic", "C03", 0, |e| {
            let saved: RefCell<Option<Weak<LNode<P>>>> = RefCell::new(None);
            let r = catch_unwind(AssertUnwindSafe(|| {
                Cc::new_cyclic(|w: &Weak<LNode<P>>| -> LNode<P> {
                    *saved.borrow_mut() = Some(w.clone());
                    std::panic::panic_any(7u8)
                })
            }));
            if r.is_ok() {
                e.push("C03|cyclic_no_panic|new_cyclic returned although its closure panicked".into());
            }
            if !BOXES.with(|b| b.borrow().is_empty()) {
                e.push("C03|cyclic_box_leaked|the box of a new_cyclic whose closure panicked is still allocated".into());
            }
            if let Some(w) = saved.borrow().as_ref() {
                if w.upgrade().is_some() || w.strong_count() != 0 {
                    e.push("C03|cyclic_weak_alive|a Weak saved by a panicked new_cyclic closure is alive".into());
                }
            }
            saved.borrow_mut().take();
        });
        // 9. resurrected (already finalized) object, then try_unwrap: no second finalization, box released
        #[cfg(feature = "finalization")]
        scenario::<P>(ctx, "unwrap_after_resurrection", "C13", 1, |e| {
            let a = Cc::new(LNode::<P>::new(10));
            *a.me.borrow_mut() = Some(a.downgrade());
            RESURRECT_ON.with(|r| r.set(true));
            drop(a);
            RESURRECT_ON.with(|r| r.set(false));
            let back = RESURRECT.with(|r| r.borrow_mut().pop());
            let Some(back) = back else {
                e.push("C13|not_resurrected|the finalizer could not resurrect the object".into());
                return;
            };
            let Ok(cc) = back.downcast::<Cc<LNode<P>>>() else { return };
            let cc = *cc;
            if !cc.already_finalized() || FINS.with(|f| f.get()) != 1 {
                e.push("C13|finalized_flag|resurrected object does not report already_finalized()".into());
            }
            cc.me.borrow_mut().take();
            match cc.try_unwrap() {
                Ok(v) => {
                    if FINS.with(|f| f.get()) != 1 {
                        e.push("C13|ran_callbacks|try_unwrap finalized the value".into());
                    }
                    drop(v);
                }
                Err(_) => e.push("C13|err_unique|try_unwrap returned Err for a unique resurrected pointer".into()),
            }
        });
    }
}

fn main() {
    let args = Args::from_env();
    if args.flag("--noop") {
        return;
    }
    std::panic::set_hook(Box::new(|_| {}));
    #[cfg(feature = "auto-collect")]
    let _ = rust_cc::config::config(|c| c.set_auto_collect(false));
    valloc::set_mode(if args.str("--alloc", "quarantine") == "track" { valloc::MODE_TRACK } else { valloc::MODE_QUARANTINE });
    verif::set_box_observer(Some(observer));
    let mut ctx = Ctx {
        rep: Report::new(),
        only: args.get("--only").map(|s| s.to_string()),
        shard: args.u64("--shard", 0),
        nshards: args.u64("--nshards", 1).max(1),
        idx: 0,
        props: args.str("--props", "C03,C13,C11").split(',').map(|s| s.to_string()).collect(),
    };
    all_layouts(&mut ctx);
    ctx.rep.emit();
}
