//! Hand-written histories for the branches identified in DESIGN.md section 1 and the scratch reproductions of section 7.
use crate::ops::*;

fn new(r: u8) -> Act {
    Act::New { dst: Dst::R(r), spec: Box::new(Spec::default()) }
}
fn new_spec(r: u8, fin: Vec<Act>, drp: Vec<DAct>) -> Act {
    Act::New { dst: Dst::R(r), spec: Box::new(Spec { fin, drp }) }
}
fn set(owner: u8, slot: u8, src: u8) -> Act {
    Act::Clone { src: Src::R(src), dst: Dst::Slot(Own::R(owner), false, slot) }
}
fn seth(owner: u8, src: u8) -> Act {
    Act::Clone { src: Src::R(src), dst: Dst::Slot(Own::R(owner), true, 0) }
}
fn drop_r(r: u8) -> Act {
    Act::Drop { dst: Dst::R(r) }
}
fn clone_r(a: u8, b: u8) -> Act {
    Act::Clone { src: Src::R(a), dst: Dst::R(b) }
}

pub fn all() -> Vec<History> {
    let mut v: Vec<(&str, Vec<Act>)> = Vec::new();
    // F1 shape: X, P with P -> X; buffer X then P; (a trace fault after visiting X) ; drop X's handle; collect
    v.push(("stale_tracing_counter", vec![new(0), new(1), set(1, 0, 0), clone_r(0, 2), drop_r(2), clone_r(1, 2), drop_r(2), Act::Collect, drop_r(0), Act::Collect, Act::Query, Act::CollectQuiet]));
    // simple ring of 2, collected
    v.push(("ring2", vec![new(0), new(1), set(0, 0, 1), set(1, 0, 0), drop_r(0), drop_r(1), Act::CollectQuiet]));
    // self loop
    v.push(("self_loop", vec![new(0), set(0, 0, 0), drop_r(0), Act::CollectQuiet]));
    // ring with acyclic tail and shared tail
    v.push(("ring_tail_shared", vec![new(0), new(1), new(2), set(0, 0, 1), set(1, 0, 0), set(1, 1, 2), clone_r(2, 3), drop_r(0), drop_r(1), drop_r(2), Act::CollectQuiet, Act::Query, drop_r(3)]));
    // ring pinned through hidden slot of a live object, then unpinned
    v.push(("hidden_pin", vec![new(0), new(1), new(2), set(0, 0, 1), set(1, 0, 0), seth(2, 0), drop_r(0), drop_r(1), Act::CollectQuiet, drop_r(2), Act::CollectQuiet]));
    // ring closed through a ManuallyDrop slot (traced, not released by its owner): reclaimed by the collector, boxes freed
    v.push(("ring_through_manuallydrop_slot", vec![new(0), new(1), set(0, 0, 1), Act::Clone { src: Src::R(0), dst: Dst::Slot(Own::R(1), false, NT as u8) }, drop_r(0), drop_r(1), Act::CollectQuiet, Act::Query]));
    // acyclic tail hanging off a ring through a ManuallyDrop slot
    v.push(("tail_through_manuallydrop_slot", vec![new(0), set(0, 0, 0), new(1), Act::Take { src: Src::R(1), dst: Dst::Slot(Own::R(0), false, NT as u8) }, drop_r(0), Act::CollectQuiet, Act::Query]));
    // owner released by reference counting while its ManuallyDrop slot holds a Cc: that Cc is leaked, the target pinned
    v.push(("manuallydrop_slot_leaks_on_rc_drop", vec![new(0), new(1), Act::Clone { src: Src::R(1), dst: Dst::Slot(Own::R(0), false, NT as u8) }, drop_r(0), Act::Query, drop_r(1), Act::CollectQuiet, Act::Query]));
    // hidden self cycle: legal leak
    v.push(("hidden_self_cycle", vec![new(0), seth(0, 0), drop_r(0), Act::CollectQuiet]));
    // garbage pinned through hidden slot of garbage
    v.push(("hidden_pin_by_garbage", vec![new(0), new(1), new(2), new(3), set(0, 0, 1), set(1, 0, 0), set(2, 0, 3), set(3, 0, 2), seth(2, 0), drop_r(0), drop_r(1), drop_r(2), drop_r(3), Act::CollectQuiet]));
    // resurrect neighbour from finalizer into a global, later die again
    v.push(("resurrect_neighbour", vec![
        new_spec(0, vec![Act::Clone { src: Src::MeT(0), dst: Dst::G(0) }], vec![]), new(1), set(0, 0, 1), set(1, 0, 0), drop_r(0), drop_r(1), Act::CollectQuiet, Act::Query,
        Act::Drop { dst: Dst::G(0) }, Act::CollectQuiet,
    ]));
    // resurrect self through self-weak
    v.push(("resurrect_self_weak", vec![
        new_spec(0, vec![Act::Upgrade { src: WLoc::Of(Own::Me, 0), dst: Dst::G(0) }], vec![]), Act::Downgrade { src: Src::R(0), dst: WLoc::Of(Own::R(0), 0) }, set(0, 0, 0), drop_r(0), Act::CollectQuiet,
        Act::Drop { dst: Dst::G(0) }, Act::CollectQuiet,
    ]));
    // plain-drop finalizer resurrects self into its own traced slot: alive by its count, unreachable, must be buffered
    v.push(("rc_resurrect_into_own_slot", vec![
        new_spec(0, vec![Act::Upgrade { src: WLoc::Of(Own::Me, 0), dst: Dst::Slot(Own::Me, false, 1) }], vec![]), Act::Downgrade { src: Src::R(0), dst: WLoc::Of(Own::R(0), 0) }, drop_r(0), Act::Query, Act::CollectQuiet,
    ]));
    // ... and into the slot of a child it solely owns
    v.push(("rc_resurrect_into_child_slot", vec![
        new_spec(0, vec![Act::Upgrade { src: WLoc::Of(Own::Me, 0), dst: Dst::Slot(Own::G(0), false, 0) }, Act::Take { src: Src::G(0), dst: Dst::Slot(Own::Me, false, 0) }], vec![]), Act::Downgrade { src: Src::R(0), dst: WLoc::Of(Own::R(0), 0) },
        new(1), Act::Take { src: Src::R(1), dst: Dst::G(0) }, drop_r(0), Act::Query, Act::CollectQuiet,
    ]));
    // plain-drop finalizer resurrects self
    v.push(("rc_resurrect_self", vec![
        new_spec(0, vec![Act::Upgrade { src: WLoc::Of(Own::Me, 0), dst: Dst::G(1) }], vec![]), Act::Downgrade { src: Src::R(0), dst: WLoc::Of(Own::R(0), 0) }, drop_r(0), Act::Query, Act::Drop { dst: Dst::G(1) }, Act::CollectQuiet,
    ]));
    // collection requested from a finalizer under a plain drop (F3 shape): buffered garbage exists
    v.push(("collect_in_rc_finalizer", vec![
        new(1), new(2), set(1, 0, 2), set(2, 0, 1), drop_r(1), drop_r(2),
        new_spec(0, vec![Act::Collect], vec![]), drop_r(0), Act::CollectQuiet,
    ]));
    // collection requested from a destructor under a plain drop
    v.push(("collect_in_rc_destructor", vec![
        new(1), new(2), set(1, 0, 2), set(2, 0, 1), drop_r(1), drop_r(2),
        new_spec(0, vec![], vec![DAct::Collect]), drop_r(0), Act::CollectQuiet,
    ]));
    // nested no-op collect from a finalizer inside a collection, try_unwrap / finalize_again inside
    v.push(("noop_collect_in_collector_finalizer", vec![
        new(3), Act::Take { src: Src::R(3), dst: Dst::G(0) },
        new_spec(0, vec![Act::Collect, Act::TryUnwrap { reg: Dst::G(0) }, Act::FinalizeAgain { reg: Dst::G(0) }, Act::New { dst: Dst::G(1), spec: Box::new(Spec::default()) }], vec![DAct::Collect, DAct::Query]),
        set(0, 0, 0), drop_r(0), Act::CollectQuiet, Act::Drop { dst: Dst::G(0) }, Act::Drop { dst: Dst::G(1) }, Act::CollectQuiet,
    ]));
    // try_unwrap matrix basics
    v.push(("try_unwrap_unique_buffered", vec![new(0), clone_r(0, 1), drop_r(1), Act::TryUnwrap { reg: Dst::R(0) }]));
    v.push(("try_unwrap_shared", vec![new(0), clone_r(0, 1), Act::TryUnwrap { reg: Dst::R(0) }, drop_r(1), Act::TryUnwrap { reg: Dst::R(0) }]));
    v.push(("try_unwrap_with_weak", vec![new(0), Act::Downgrade { src: Src::R(0), dst: WLoc::WR(0) }, Act::WClone { src: WLoc::WR(0), dst: WLoc::WR(1) }, Act::TryUnwrap { reg: Dst::R(0) }, Act::Upgrade { src: WLoc::WR(0), dst: Dst::R(1) }, Act::WDrop { dst: WLoc::WR(0) }, Act::Query, Act::WDrop { dst: WLoc::WR(1) }]));
    // weak outlives value (rc path and collector path)
    v.push(("weak_outlives_rc", vec![new(0), Act::Downgrade { src: Src::R(0), dst: WLoc::WR(0) }, drop_r(0), Act::Upgrade { src: WLoc::WR(0), dst: Dst::R(1) }, Act::Query, Act::WDrop { dst: WLoc::WR(0) }]));
    v.push(("weak_outlives_collector", vec![new(0), set(0, 0, 0), Act::Downgrade { src: Src::R(0), dst: WLoc::WR(0) }, drop_r(0), Act::CollectQuiet, Act::Upgrade { src: WLoc::WR(0), dst: Dst::R(1) }, Act::WClone { src: WLoc::WR(0), dst: WLoc::WR(1) }, Act::WDrop { dst: WLoc::WR(0) }, Act::WDrop { dst: WLoc::WR(1) }]));
    // re-downgrade after weak count returned to zero
    v.push(("redowngrade", vec![new(0), Act::Downgrade { src: Src::R(0), dst: WLoc::WR(0) }, Act::WDrop { dst: WLoc::WR(0) }, Act::Downgrade { src: Src::R(0), dst: WLoc::WR(1) }, Act::Upgrade { src: WLoc::WR(1), dst: Dst::R(1) }, drop_r(0), drop_r(1), Act::WDrop { dst: WLoc::WR(1) }]));
    // new_cyclic basics
    v.push(("new_cyclic_keep", vec![Act::NewCyclic { dst: Dst::R(0), spec: Box::new(Spec::default()), script: vec![Act::Upgrade { src: WLoc::Cyc, dst: Dst::Discard }, Act::WClone { src: WLoc::Cyc, dst: WLoc::WR(0) }, Act::Collect], keep: 3 }, Act::Upgrade { src: WLoc::Of(Own::R(0), 0), dst: Dst::R(1) }, Act::Upgrade { src: WLoc::WR(0), dst: Dst::R(2) }, drop_r(1), drop_r(2), drop_r(0), Act::Upgrade { src: WLoc::WR(0), dst: Dst::R(2) }, Act::WDrop { dst: WLoc::WR(0) }]));
    // new_cyclic with automatic collection due and garbage buffered (F2 shape when a callback of it panics)
    v.push(("new_cyclic_auto_collect_due", vec![
        Act::Config { auto: true, percent: 2, buffered: 1 },
        new_spec(0, vec![Act::Query], vec![]), new(1), set(0, 0, 1), set(1, 0, 0), clone_r(0, 2), drop_r(0), drop_r(1), drop_r(2),
        Act::NewCyclic { dst: Dst::R(3), spec: Box::new(Spec::default()), script: vec![Act::WClone { src: WLoc::Cyc, dst: WLoc::WR(0) }], keep: 1 },
        Act::Upgrade { src: WLoc::WR(0), dst: Dst::Discard }, drop_r(3), Act::Upgrade { src: WLoc::WR(0), dst: Dst::Discard }, Act::WDrop { dst: WLoc::WR(0) },
    ]));
    // cleaners: register / clean / drop cleanable / owner released by rc and by collector
    let act = |cap: Option<Src>, wcap: Option<WLoc>, script: Vec<Act>| Box::new(ActionSpec { cap, wcap, script });
    v.push(("cleaner_rc", vec![new(0), Act::Register { own: Own::R(0), action: act(None, None, vec![]), dst: 0 }, Act::Register { own: Own::R(0), action: act(None, None, vec![Act::Query]), dst: 1 }, Act::Register { own: Own::R(0), action: act(None, None, vec![]), dst: 2 }, Act::Clean { c: 0 }, Act::Clean { c: 0 }, Act::CDrop { c: 1 }, drop_r(0), Act::Clean { c: 2 }, Act::Clean { c: 0 }]));
    v.push(("cleaner_cycle", vec![new(0), new(1), set(0, 0, 1), set(1, 0, 0), Act::Downgrade { src: Src::R(1), dst: WLoc::WR(0) }, Act::Register { own: Own::R(0), action: act(None, Some(WLoc::WR(0)), vec![Act::Upgrade { src: WLoc::Cap, dst: Dst::Discard }]), dst: 0 }, Act::Register { own: Own::R(0), action: act(None, None, vec![]), dst: 1 }, Act::Clean { c: 1 }, drop_r(0), drop_r(1), Act::CollectQuiet, Act::Clean { c: 0 }, Act::WDrop { dst: WLoc::WR(0) }]));
    // first registration on a cleaner allocates its map, which can start an automatic collection; a finalizer run by
    // that collection registers on the very same cleaner
    v.push(("register_reentered_from_finalizer", vec![
        new(0), Act::Clone { src: Src::R(0), dst: Dst::G(0) },
        new_spec(1, vec![Act::Register { own: Own::G(0), action: act(None, None, vec![Act::Query]), dst: 1 }], vec![]), set(1, 0, 1), drop_r(1),
        clone_r(0, 2), drop_r(2), new(3), clone_r(3, 2), drop_r(2),
        Act::Config { auto: true, percent: 2, buffered: 1 },
        Act::Register { own: Own::R(0), action: act(None, None, vec![]), dst: 0 }, Act::Query, Act::Clean { c: 1 }, Act::Clean { c: 0 }, drop_r(0), Act::Drop { dst: Dst::G(0) }, Act::CollectQuiet,
    ]));
    // every action cleaned (map empty), a new registration, then the stale cleanable is cleaned again: must be a no-op
    v.push(("cleaner_stale_key_after_empty", vec![new(0), Act::Register { own: Own::R(0), action: act(None, None, vec![]), dst: 0 }, Act::Clean { c: 0 }, Act::Register { own: Own::R(0), action: act(None, None, vec![Act::Query]), dst: 1 }, Act::Clean { c: 0 }, Act::Query, Act::Register { own: Own::R(0), action: act(None, None, vec![]), dst: 2 }, Act::Clean { c: 1 }, Act::Clean { c: 2 }, Act::Clean { c: 0 }, Act::Clean { c: 1 }, drop_r(0)]));
    // action that releases the owner of its own cleaner through clean() (F5 shape)
    v.push(("cleaner_action_drops_owner", vec![new(0), Act::Register { own: Own::R(0), action: act(None, None, vec![Act::Drop { dst: Dst::G(0) }]), dst: 0 }, Act::Register { own: Own::R(0), action: act(None, None, vec![]), dst: 1 }, Act::Take { src: Src::R(0), dst: Dst::G(0) }, Act::Clean { c: 0 }, Act::Query]));
    // action captures a Cc to a neighbour (hidden ownership through the cleaner)
    v.push(("cleaner_captures_cc", vec![new(0), new(1), Act::Register { own: Own::R(0), action: act(Some(Src::R(1)), None, vec![Act::Take { src: Src::Cap, dst: Dst::G(0) }]), dst: 0 }, drop_r(1), Act::CollectQuiet, drop_r(0), Act::Query, Act::Drop { dst: Dst::G(0) }]));
    // upgrade from an action nested in a plain drop during a finalization pass (F4 shape):
    // garbage ring {0,1}: finalizer of 0 drops global holding unrelated 2 whose cleaner action upgrades a weak to 1
    v.push(("upgrade_in_action_nested_in_finalization", vec![
        new_spec(0, vec![Act::Drop { dst: Dst::G(0) }], vec![]), new(1), set(0, 0, 1), set(1, 0, 0),
        new(2), Act::Downgrade { src: Src::R(1), dst: WLoc::WR(0) },
        Act::Register { own: Own::R(2), action: act(None, Some(WLoc::WR(0)), vec![Act::Upgrade { src: WLoc::Cap, dst: Dst::Discard }]), dst: 0 },
        Act::Take { src: Src::R(2), dst: Dst::G(0) }, Act::WDrop { dst: WLoc::WR(0) }, Act::CDrop { c: 0 },
        drop_r(0), drop_r(1), Act::CollectQuiet,
    ]));
    // a pass whose garbage mixes already-finalized (resurrected earlier) and never-finalized objects
    v.push(("mixed_finalized_and_fresh_garbage", vec![
        new_spec(0, vec![Act::Clone { src: Src::MeT(0), dst: Dst::G(0) }], vec![]), new(1), set(0, 0, 1), set(1, 0, 0), drop_r(0), drop_r(1), Act::CollectQuiet,
        new(2), Act::Clone { src: Src::G(0), dst: Dst::R(1) }, Act::Clone { src: Src::R(2), dst: Dst::Slot(Own::R(1), false, 1) }, Act::Clone { src: Src::R(1), dst: Dst::Slot(Own::R(2), false, 0) },
        Act::Drop { dst: Dst::G(0) }, drop_r(1), drop_r(2), Act::Query, Act::CollectQuiet,
    ]));
    // finalizer under a plain drop runs a collection and then allocates: the new object is born finalized
    v.push(("rc_finalizer_collects_then_allocates", vec![
        new(1), set(1, 0, 1), drop_r(1),
        new_spec(0, vec![Act::Collect, Act::New { dst: Dst::G(0), spec: Box::new(Spec::default()) }], vec![]), drop_r(0), Act::Query, Act::Drop { dst: Dst::G(0) }, Act::CollectQuiet,
    ]));
    // buffered object whose destructor starts a collection when its last Cc goes
    v.push(("buffered_last_drop_destructor_collects", vec![
        new_spec(0, vec![], vec![DAct::Collect, DAct::Query]), clone_r(0, 1), drop_r(1), new(2), set(2, 0, 2), drop_r(2), drop_r(0), Act::Query, Act::CollectQuiet,
    ]));
    // ... and whose cleaning action starts a collection / allocates under automatic collection
    v.push(("buffered_last_drop_action_collects", vec![
        Act::Config { auto: true, percent: 2, buffered: 1 },
        new(0), Act::Register { own: Own::R(0), action: act(None, None, vec![Act::Collect, Act::New { dst: Dst::G(0), spec: Box::new(Spec::default()) }]), dst: 0 }, Act::Clean { c: 1 },
        clone_r(0, 1), drop_r(1), new(2), set(2, 0, 2), drop_r(2), Act::CDrop { c: 0 }, drop_r(0), Act::Query, Act::Drop { dst: Dst::G(0) }, Act::CollectQuiet,
    ]));
    // unique buffered object in a global; a finalizer running under a plain drop tries to unwrap it (refused)
    v.push(("refused_try_unwrap_in_rc_finalizer", vec![
        new(1), clone_r(1, 2), drop_r(2), Act::Take { src: Src::R(1), dst: Dst::G(0) },
        new_spec(0, vec![Act::TryUnwrap { reg: Dst::G(0) }, Act::FinalizeAgain { reg: Dst::G(0) }], vec![]), drop_r(0), Act::Query, Act::TryUnwrap { reg: Dst::G(0) },
    ]));
    // finalizer inside a collection calls new_cyclic / Cc::new while an automatic collection would be due
    v.push(("creation_in_collector_finalizer_auto_due", vec![
        Act::Config { auto: true, percent: 2, buffered: 1 },
        new(3), new(4), clone_r(3, 2), drop_r(2), clone_r(4, 2), drop_r(2),
        new_spec(0, vec![Act::NewCyclic { dst: Dst::G(0), spec: Box::new(Spec::default()), script: vec![], keep: 1 }, Act::New { dst: Dst::G(1), spec: Box::new(Spec::default()) }], vec![]),
        set(0, 0, 0), drop_r(0), Act::Collect, Act::Query, Act::Drop { dst: Dst::G(0) }, Act::Drop { dst: Dst::G(1) }, Act::CollectQuiet,
    ]));
    // side record with no Weak left, then try_unwrap
    v.push(("try_unwrap_side_record_no_weak", vec![new(0), Act::Downgrade { src: Src::R(0), dst: WLoc::WR(0) }, Act::WDrop { dst: WLoc::WR(0) }, Act::TryUnwrap { reg: Dst::R(0) }, new(1), Act::Query]));
    v.push(("try_unwrap_new_cyclic_no_weak", vec![Act::NewCyclic { dst: Dst::R(0), spec: Box::new(Spec::default()), script: vec![], keep: 0 }, Act::TryUnwrap { reg: Dst::R(0) }, new(1), Act::Query]));
    // collection requested from a cleaning action under a plain drop with garbage buffered
    v.push(("collect_in_rc_action", vec![
        new(1), new(2), set(1, 0, 2), set(2, 0, 1), drop_r(1), drop_r(2),
        new(0), Act::Register { own: Own::R(0), action: act(None, None, vec![Act::Collect]), dst: 0 }, drop_r(0), Act::Query, Act::CollectQuiet,
    ]));
    // two buffered roots and a shared child (what an unwound root phase leaves behind is exercised by fault injection)
    v.push(("two_roots_shared_child", vec![
        new(0), new(1), new(2), set(0, 0, 2), set(1, 0, 2), drop_r(2), clone_r(0, 3), drop_r(3), clone_r(1, 3), drop_r(3), Act::Collect,
        new(3), Act::Take { src: Src::R(1), dst: Dst::Slot(Own::R(3), false, 0) }, clone_r(3, 4), drop_r(4), clone_r(0, 4), drop_r(4), Act::Collect, Act::Query, drop_r(0), drop_r(3), Act::CollectQuiet,
    ]));
    // upgrade from a destructor-side cleaning action to a peer of the same dying ring, result kept
    v.push(("upgrade_peer_in_action_during_collection", vec![
        new(0), new(1), set(0, 0, 1), set(1, 0, 0), Act::Downgrade { src: Src::R(1), dst: WLoc::WR(0) },
        Act::Register { own: Own::R(0), action: act(None, Some(WLoc::WR(0)), vec![Act::Upgrade { src: WLoc::Cap, dst: Dst::G(0) }]), dst: 0 },
        Act::WDrop { dst: WLoc::WR(0) }, Act::CDrop { c: 0 }, drop_r(0), drop_r(1), Act::CollectQuiet, Act::Query, Act::Drop { dst: Dst::G(0) }, Act::CollectQuiet,
    ]));
    // hidden-owned object released by the drop glue of a ring member during the collector's drop phase; its finalizer
    // upgrades a Weak to the other (not yet dropped, or already dropped) member, both ring orders
    v.push(("upgrade_peer_from_finalizer_nested_in_drop_phase", vec![
        new(0), new(1), set(0, 0, 1), set(1, 0, 0),
        new_spec(2, vec![Act::Upgrade { src: WLoc::Of(Own::Me, 1), dst: Dst::G(0) }], vec![DAct::UpgradeW(1)]), Act::Downgrade { src: Src::R(1), dst: WLoc::Of(Own::R(2), 1) }, Act::Take { src: Src::R(2), dst: Dst::Slot(Own::R(0), true, 0) },
        new_spec(3, vec![Act::Upgrade { src: WLoc::Of(Own::Me, 1), dst: Dst::Discard }], vec![]), Act::Downgrade { src: Src::R(0), dst: WLoc::Of(Own::R(3), 1) }, Act::Take { src: Src::R(3), dst: Dst::Slot(Own::R(1), true, 0) },
        drop_r(0), drop_r(1), Act::CollectQuiet, Act::Query, Act::Drop { dst: Dst::G(0) }, Act::CollectQuiet,
    ]));
    v.push(("upgrade_peer_from_finalizer_nested_in_drop_phase_rev", vec![
        new(0), new(1), set(0, 0, 1), set(1, 0, 0),
        new_spec(2, vec![Act::Upgrade { src: WLoc::Of(Own::Me, 1), dst: Dst::G(0) }], vec![DAct::UpgradeW(1)]), Act::Downgrade { src: Src::R(1), dst: WLoc::Of(Own::R(2), 1) }, Act::Take { src: Src::R(2), dst: Dst::Slot(Own::R(0), true, 0) },
        drop_r(1), drop_r(0), Act::CollectQuiet, Act::Query, Act::Drop { dst: Dst::G(0) }, Act::CollectQuiet,
    ]));
    // auto collection triggered inside Cc::new with callbacks
    v.push(("auto_collect_in_new", vec![
        Act::Config { auto: true, percent: 2, buffered: 1 },
        new_spec(0, vec![Act::Clone { src: Src::MeT(0), dst: Dst::G(0) }], vec![]), new(1), set(0, 0, 1), set(1, 0, 0), clone_r(0, 2), drop_r(2), clone_r(1, 2), drop_r(2), drop_r(0), drop_r(1),
        new(3), new(4), Act::Query, Act::Drop { dst: Dst::G(0) }, new(0),
    ]));
    // mark_alive positions in buffer (first / middle / last)
    v.push(("mark_alive_positions", vec![new(0), new(1), new(2), clone_r(0, 3), drop_r(3), clone_r(1, 3), drop_r(3), clone_r(2, 3), drop_r(3), Act::MarkAlive { src: Src::R(1) }, Act::MarkAlive { src: Src::R(2) }, Act::MarkAlive { src: Src::R(0) }, clone_r(0, 3), drop_r(3), clone_r(1, 3), drop_r(3), Act::Downgrade { src: Src::R(0), dst: WLoc::WR(0) }, Act::Upgrade { src: WLoc::WR(0), dst: Dst::R(4) }, Act::TryUnwrap { reg: Dst::R(2) }, Act::Collect]));
    // finalize_again then die again
    v.push(("finalize_again", vec![new_spec(0, vec![Act::Upgrade { src: WLoc::Of(Own::Me, 0), dst: Dst::G(0) }], vec![]), Act::Downgrade { src: Src::R(0), dst: WLoc::Of(Own::R(0), 0) }, drop_r(0), Act::FinalizeAgain { reg: Dst::G(0) }, Act::Drop { dst: Dst::G(0) }, Act::FinalizeAgain { reg: Dst::G(0) }, Act::Drop { dst: Dst::G(0) }, Act::CollectQuiet]));
    // deep solely-owned tree released by one drop (cascade)
    v.push(("cascade_tree", vec![new(0), new(1), new(2), new(3), Act::Take { src: Src::R(3), dst: Dst::Slot(Own::R(2), true, 0) }, Act::Take { src: Src::R(2), dst: Dst::Slot(Own::R(1), false, 1) }, clone_r(1, 4), drop_r(4), Act::Take { src: Src::R(1), dst: Dst::Slot(Own::R(0), false, 0) }, Act::Collect, drop_r(0)]));
    v.into_iter().map(|(n, ops)| History { ops, label: format!("directed:{}", n) }).collect()
}

pub fn count() -> usize {
    all().len()
}

pub fn get(i: usize) -> Option<History> {
    all().into_iter().nth(i)
}
