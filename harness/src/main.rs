//! ccmon: runs generated programs against the real rust-cc while the oracles watch (DESIGN.md section 2).
mod directed;
mod evolve;
mod exhaust;
mod gen;
mod interp;
mod model;
mod node;
mod ops;
mod oracle;
mod policy;
mod run;
mod threads;
mod world;

use vcommon::alloc::MonAlloc;

#[global_allocator]
static GLOBAL: MonAlloc = MonAlloc;

fn main() {
    let args = vcommon::report::Args::from_env();
    if args.flag("--noop") {
        return;
    }
    std::process::exit(run::main(&args));
}
