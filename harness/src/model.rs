//! Shadow heap: the API-level reference model (DESIGN.md section 2.4). It mirrors what the *program* did (which
//! handles exist and where) and what the callbacks reported (values dropped, boxes freed); it never predicts what the
//! collector does.
use crate::ops::*;
use std::collections::{HashMap, HashSet};

#[derive(Clone, Copy, Debug, PartialEq, Eq, Hash)]
pub enum Val {
    /// the new_cyclic closure is still running: no value yet
    Uninit,
    /// constructed, not (yet) inside a box (Cc::new in flight, or it unwound)
    Unboxed,
    Alive,
    Dropped,
    /// moved out by try_unwrap, owned by the program by value
    Unwrapped,
    /// new_cyclic closure panicked: a value never existed
    Vanished,
}

#[derive(Clone, Copy, Debug, PartialEq, Eq, Hash)]
pub enum Tri {
    Out,
    In,
    Unk,
}

/// Weak target as the model sees it.
#[derive(Clone, Copy, Debug, PartialEq, Eq, Hash)]
pub enum WT {
    None,
    /// created by Weak::new()
    Dangling,
    To(u32),
}

#[derive(Clone, Debug)]
pub struct MAction {
    pub runs: u32,
    pub cap: Option<u32>,
    pub wcap: WT,
    /// the closure state has been dropped (captures released)
    pub done: bool,
    /// clean() was called on it by the program at least once
    pub cleaned: bool,
    pub registered_seq: u64,
}

#[derive(Clone, Debug)]
pub struct MObj {
    pub id: u32,
    pub val: Val,
    pub glue_pending: bool,
    /// total callback events seen when the Drop shim of this value ran (to know whether anything ran during its glue)
    pub glue_mark: u64,
    pub box_addr: usize,
    pub box_size: usize,
    pub box_live: bool,
    pub t: [Option<u32>; NTM],
    pub h: [Option<u32>; NH],
    pub w: [WT; NW],
    pub fin_count: u32,
    /// finalization is due when it dies (API view: not yet finalized, or re-armed)
    pub armed: bool,
    pub seen_unreach: bool,
    /// the count of holders reached zero while no collection was running (C04 cascade duty)
    pub zero_outside: bool,
    pub buffered: Tri,
    pub born_in_finalizer: bool,
    pub resurrected: bool,
    pub cyclic: bool,
    /// id of the collector drop phase during which Weak::upgrade handed this object out (0 = never)
    pub upgraded_in_drop_phase: u64,
    pub side_addr: usize,
    pub actions: Vec<MAction>,
    pub map_addr: usize,
    pub map_live: bool,
    pub map_buffered: Tri,
    pub map_side_addr: usize,
    /// further cleaner-map boxes allocated for this object's cleaner while one already existed (re-entrant register)
    pub spare_maps: Vec<usize>,
    /// number of Cleanable handles (Weak<CleanerMap>) to this object's cleaner map held by the program
    pub cleaner_enter_seen: bool,
    pub cleaner_exit_seen: bool,
    pub spec: Spec,
}

impl MObj {
    pub fn new(id: u32, spec: Spec) -> MObj {
        MObj {
            id,
            val: Val::Unboxed,
            glue_pending: false,
            glue_mark: 0,
            box_addr: 0,
            box_size: 0,
            box_live: false,
            t: [None; NTM],
            h: [None; NH],
            w: [WT::None; NW],
            fin_count: 0,
            armed: true,
            seen_unreach: false,
            zero_outside: false,
            buffered: Tri::Out,
            born_in_finalizer: false,
            resurrected: false,
            cyclic: false,
            upgraded_in_drop_phase: 0,
            side_addr: 0,
            actions: Vec::new(),
            map_addr: 0,
            map_live: false,
            map_buffered: Tri::Out,
            map_side_addr: 0,
            spare_maps: Vec::new(),
            cleaner_enter_seen: false,
            cleaner_exit_seen: false,
            spec,
        }
    }

    /// The value exists and owns its slots for sure.
    pub fn owns_slots(&self) -> bool {
        matches!(self.val, Val::Alive | Val::Unwrapped | Val::Unboxed)
    }
    /// The value was dropped but its drop glue may not have released the slots yet.
    pub fn maybe_owns_slots(&self) -> bool {
        self.val == Val::Dropped && self.glue_pending
    }
}

#[derive(Clone, Copy, Debug, PartialEq, Eq)]
pub enum BoxOwner {
    Node(u32),
    Map(u32),
    Unknown,
}

#[derive(Clone, Copy, Debug)]
pub struct BoxRec {
    pub size: usize,
    pub align: usize,
    pub owner: BoxOwner,
}

#[derive(Clone, Copy, Debug)]
pub struct SideRec {
    pub size: usize,
    pub owner: BoxOwner,
}

#[derive(Default)]
pub struct Model {
    pub objs: Vec<MObj>,
    pub r: [Option<u32>; NR],
    pub g: [Option<u32>; NG],
    pub wr: [WT; NWR],
    /// cleanable registers: (owner object, action index)
    pub cr: [Option<(u32, usize)>; NC],
    /// live managed boxes according to the observer
    pub boxes: HashMap<usize, BoxRec>,
    pub box_bytes: usize,
    /// live side records according to the observer
    pub sides: HashMap<usize, SideRec>,
    /// the Weak handed to a running new_cyclic closure points to this object
    pub cyc: Vec<u32>,
    /// handles the program holds temporarily while it calls a method through them
    pub pins: Vec<u32>,
    /// handles in the program's pool (Act::Bulk): (object id, how many)
    pub bulk: Vec<(u32, u32)>,
    /// Weak pointers in the program's weak pool (Act::BulkWeak)
    pub wbulk: Vec<(u32, u32)>,
    pub next_id: u32,
}

impl Default for WT {
    fn default() -> Self {
        WT::None
    }
}

impl Model {
    pub fn new() -> Model {
        Model { wr: [WT::None; NWR], ..Default::default() }
    }

    pub fn bulk_count(&self, id: u32) -> u32 {
        self.bulk.iter().find(|x| x.0 == id).map_or(0, |x| x.1)
    }
    pub fn bulk_add(&mut self, id: u32, d: i64, weak: bool) {
        let v = if weak { &mut self.wbulk } else { &mut self.bulk };
        if let Some(e) = v.iter_mut().find(|x| x.0 == id) {
            e.1 = (e.1 as i64 + d).max(0) as u32;
        } else if d > 0 {
            v.push((id, d as u32));
        }
        v.retain(|x| x.1 > 0);
    }

    pub fn obj(&self, id: u32) -> Option<&MObj> {
        self.objs.get(id as usize)
    }
    pub fn obj_mut(&mut self, id: u32) -> Option<&mut MObj> {
        self.objs.get_mut(id as usize)
    }
    pub fn add(&mut self, spec: Spec) -> u32 {
        let id = self.objs.len() as u32;
        self.objs.push(MObj::new(id, spec));
        id
    }

    /// (min, max) number of Cc handles to `id` that exist. They differ only while the drop glue of some dropped
    /// value may or may not have released its slots yet.
    pub fn holders(&self, id: u32) -> (u32, u32) {
        let mut min = 0u32;
        let mut max = 0u32;
        for x in self.r.iter().chain(self.g.iter()) {
            if *x == Some(id) {
                min += 1;
                max += 1;
            }
        }
        for x in self.pins.iter() {
            if *x == id {
                min += 1;
                max += 1;
            }
        }
        let b = self.bulk_count(id);
        min += b;
        max += b;
        for o in &self.objs {
            let n = o.t[..NT].iter().chain(o.h.iter()).filter(|s| **s == Some(id)).count() as u32;
            if n > 0 {
                if o.owns_slots() {
                    min += n;
                    max += n;
                } else if o.maybe_owns_slots() {
                    max += n;
                }
            }
            // the ManuallyDrop slot is never released by its owner's drop glue: the handle outlives the owner
            if o.t[NT] == Some(id) && (o.owns_slots() || o.val == Val::Dropped) {
                min += 1;
                max += 1;
            }
            for a in &o.actions {
                if !a.done && a.cap == Some(id) {
                    min += 1;
                    max += 1;
                }
            }
        }
        (min, max)
    }

    /// (min, max) number of Weak handles to `id` that exist.
    pub fn weak_holders(&self, id: u32) -> (u32, u32) {
        let mut min = 0u32;
        let mut max = 0u32;
        let t = WT::To(id);
        for x in self.wr.iter() {
            if *x == t {
                min += 1;
                max += 1;
            }
        }
        for c in &self.cyc {
            if *c == id {
                min += 1;
                max += 1;
            }
        }
        let b = self.wbulk.iter().find(|x| x.0 == id).map_or(0, |x| x.1);
        min += b;
        max += b;
        for o in &self.objs {
            let n = o.w.iter().filter(|s| **s == t).count() as u32;
            if n > 0 {
                if o.owns_slots() {
                    min += n;
                    max += n;
                } else if o.maybe_owns_slots() {
                    max += n;
                }
            }
            for a in &o.actions {
                if !a.done && a.wcap == t {
                    min += 1;
                    max += 1;
                }
            }
        }
        (min, max)
    }

    fn out_edges(&self, o: &MObj, f: &mut dyn FnMut(u32)) {
        if o.owns_slots() {
            for s in o.t.iter().chain(o.h.iter()).flatten() {
                f(*s);
            }
        }
        for a in &o.actions {
            if !a.done {
                if let Some(c) = a.cap {
                    f(c);
                }
            }
        }
    }

    /// Objects reachable from program-held handles through any slot, traced or not.
    pub fn reach(&self) -> HashSet<u32> {
        let mut seen = HashSet::new();
        let mut st: Vec<u32> = self.r.iter().chain(self.g.iter()).flatten().cloned().collect();
        st.extend(self.pins.iter().cloned());
        st.extend(self.bulk.iter().filter(|x| x.1 > 0).map(|x| x.0));
        // a value the program owns by value (try_unwrap result) is a root too
        for o in &self.objs {
            if o.val == Val::Unwrapped || o.val == Val::Unboxed {
                st.push(o.id);
            }
        }
        while let Some(x) = st.pop() {
            if !seen.insert(x) {
                continue;
            }
            if let Some(o) = self.obj(x) {
                self.out_edges(o, &mut |y| st.push(y));
            }
        }
        seen
    }

    /// Latches `seen_unreach` for every live object that is unreachable now. Call after every model mutation.
    pub fn latch(&mut self) {
        let r = self.reach();
        for o in self.objs.iter_mut() {
            if matches!(o.val, Val::Alive) && !r.contains(&o.id) {
                o.seen_unreach = true;
            }
        }
    }

    /// What an ideal collector may leave behind (DESIGN.md 2.4): repeatedly delete the greatest set of live boxed
    /// objects all of whose holders are traced slots of members of the set.
    pub fn remain(&self) -> HashSet<u32> {
        self.remain_with(&[])
    }

    /// `extra_roots`: objects held by handles the model does not list (a Cc::drop in flight).
    pub fn remain_with(&self, extra_roots: &[u32]) -> HashSet<u32> {
        let mut alive: HashSet<u32> = self.objs.iter().filter(|o| o.val == Val::Alive).map(|o| o.id).collect();
        loop {
            let mut g: HashSet<u32> = alive.clone();
            loop {
                let mut rm = vec![];
                for &x in g.iter() {
                    let mut bad = self.r.iter().chain(self.g.iter()).any(|r| *r == Some(x)) || self.pins.contains(&x) || self.bulk_count(x) > 0 || extra_roots.contains(&x);
                    if !bad {
                        for o in &self.objs {
                            // captures of pending actions and hidden slots of any existing owner are external
                            // a capture is an untraced edge (like a hidden slot): external while its owner is unreclaimed; it
                            // exists until its closure state is gone (the action ran or was dropped), even if the owner's
                            // value has been dropped meanwhile (the action may be running right now)
                            if o.actions.iter().any(|a| !a.done && a.cap == Some(x)) && (alive.contains(&o.id) || o.val != Val::Alive) {
                                bad = true;
                                break;
                            }
                            // a handle left in the ManuallyDrop slot of a dead owner is leaked: an external holder for good
                            if o.val == Val::Dropped && o.t[NT] == Some(x) {
                                bad = true;
                                break;
                            }
                            // a dropped value whose drop glue may not have released its slots yet still holds real handles
                            let owns = alive.contains(&o.id) || (o.val != Val::Alive && (o.owns_slots() || o.maybe_owns_slots()));
                            if !owns {
                                continue;
                            }
                            if o.h.iter().any(|s| *s == Some(x)) {
                                bad = true;
                                break;
                            }
                            if o.t.iter().any(|s| *s == Some(x)) && !g.contains(&o.id) {
                                bad = true;
                                break;
                            }
                        }
                    }
                    if bad {
                        rm.push(x);
                    }
                }
                if rm.is_empty() {
                    break;
                }
                for x in rm {
                    g.remove(&x);
                }
            }
            if g.is_empty() {
                break;
            }
            for x in g {
                alive.remove(&x);
            }
        }
        alive
    }

    /// Hash of the abstract program-visible graph (for coverage counting).
    pub fn shape_hash(&self, h: &mut vcommon::rng::Fnv) {
        for x in self.r.iter().chain(self.g.iter()) {
            h.u64(x.map_or(u64::MAX, |v| v as u64));
        }
        for o in &self.objs {
            if o.val == Val::Alive {
                h.u64(o.id as u64);
                for s in o.t.iter().chain(o.h.iter()) {
                    h.u64(s.map_or(u64::MAX, |v| v as u64));
                }
                h.byte(o.armed as u8);
                h.byte(match o.buffered {
                    Tri::Out => 0,
                    Tri::In => 1,
                    Tri::Unk => 2,
                });
            }
        }
    }
}
