//! Workload generators (DESIGN.md section 2.6): seeded random histories with per-property weights.
use crate::ops::*;
use vcommon::Rng;

#[derive(Clone, Debug)]
pub struct Profile {
    pub name: &'static str,
    pub min_ops: usize,
    pub max_ops: usize,
    pub regs: usize,
    // weights of top-level operations
    pub w_new: u32,
    pub w_cyclic: u32,
    pub w_clone: u32,
    pub w_take: u32,
    pub w_drop: u32,
    pub w_set: u32,
    pub w_set_hidden_pct: u32,
    pub w_clear: u32,
    pub w_mark: u32,
    pub w_weak: u32,
    pub w_unwrap: u32,
    pub w_finagain: u32,
    pub w_collect: u32,
    pub w_quiet: u32,
    pub w_cleaner: u32,
    pub w_config: u32,
    pub w_dropglobal: u32,
    pub w_motif: u32,
    /// saturation motif (handle pools up to the documented limits); 0 = never
    pub w_bulk: u32,
    // callback scripts
    pub fin_pct: u32,
    pub fin_len: usize,
    pub resurrect_pct: u32,
    pub drp_pct: u32,
    pub action_script_pct: u32,
    /// weak results are never stored (differential run of C08)
    pub weak_neutral: bool,
    pub auto_collect_pct: u32,
}

impl Profile {
    pub fn base() -> Profile {
        Profile {
            name: "base",
            min_ops: 20,
            max_ops: 120,
            regs: NR,
            w_new: 14,
            w_cyclic: 2,
            w_clone: 10,
            w_take: 3,
            w_drop: 16,
            w_set: 18,
            w_set_hidden_pct: 15,
            w_clear: 5,
            w_mark: 3,
            w_weak: 8,
            w_unwrap: 2,
            w_finagain: 1,
            w_collect: 7,
            w_quiet: 4,
            w_cleaner: 5,
            w_config: 2,
            w_dropglobal: 3,
            w_motif: 4,
            w_bulk: 1,
            fin_pct: 35,
            fin_len: 2,
            resurrect_pct: 50,
            drp_pct: 15,
            action_script_pct: 60,
            weak_neutral: false,
            auto_collect_pct: 30,
        }
    }

    pub fn for_mode(mode: &str) -> Profile {
        let mut p = Profile::base();
        p.name = "base";
        match mode {
            "C01" => {
                p.w_collect = 10;
                p.auto_collect_pct = 50;
            }
            "C02" => {
                p.w_motif = 12;
                p.w_quiet = 10;
                p.w_mark = 6;
                p.w_set_hidden_pct = 20;
                p.resurrect_pct = 25;
            }
            "C03" => {
                p.w_unwrap = 5;
                p.w_cyclic = 5;
                p.w_weak = 12;
            }
            "C04" => {
                p.w_drop = 22;
                p.w_set = 22;
                p.w_collect = 5;
                p.w_take = 6;
            }
            "C05" => {
                p.fin_pct = 70;
                p.fin_len = 3;
                p.w_finagain = 4;
                p.w_motif = 8;
            }
            "C06" => {
                p.fin_pct = 80;
                p.fin_len = 3;
                p.resurrect_pct = 80;
                p.w_motif = 10;
                p.w_quiet = 8;
                p.w_weak = 10;
            }
            "C07" => {
                p.min_ops = 10;
                p.max_ops = 45;
                p.fin_pct = 50;
                p.w_motif = 8;
                p.w_collect = 10;
                p.w_cyclic = 3;
                p.auto_collect_pct = 40;
            }
            "C08" => {
                p.w_weak = 30;
                p.fin_pct = 60;
                p.drp_pct = 40;
                p.w_cleaner = 10;
                p.w_motif = 8;
            }
            "C08diff" => {
                p.w_weak = 30;
                p.weak_neutral = true;
                // no finalizer scripts: the order in which finalizers run is unspecified (and weak traffic changes the
                // buffer order), so scripts with side effects would make the two runs diverge legitimately
                p.fin_pct = 0;
                p.w_cleaner = 0;
                p.w_quiet = 8;
                p.w_motif = 8;
                p.auto_collect_pct = 0;
                p.w_config = 0;
                p.w_cyclic = 0;
            }
            "C09" => {
                p.w_weak = 35;
                p.w_unwrap = 5;
                p.w_cyclic = 5;
                p.w_cleaner = 2;
            }
            "C10" => {
                p.w_cleaner = 30;
                p.w_weak = 10;
                p.w_motif = 8;
                p.action_script_pct = 80;
            }
            "C11" => {
                p.w_mark = 8;
                p.w_clone = 14;
                p.w_weak = 10;
                p.w_unwrap = 3;
                p.fin_pct = 15;
            }
            "C12" => {
                p.fin_pct = 70;
                p.fin_len = 3;
                p.drp_pct = 50;
                p.w_cleaner = 12;
                p.w_collect = 10;
                p.auto_collect_pct = 50;
                p.w_unwrap = 4;
                p.w_finagain = 4;
            }
            "C13" => {
                p.w_unwrap = 14;
                p.w_weak = 12;
                p.w_cyclic = 5;
                p.w_mark = 5;
            }
            "C14" => {
                p.w_cyclic = 16;
                p.w_weak = 14;
                p.auto_collect_pct = 70;
                p.w_config = 5;
                p.min_ops = 10;
                p.max_ops = 50;
            }
            "C15" => {
                p.w_new = 30;
                p.w_config = 8;
                p.auto_collect_pct = 100;
                p.w_drop = 22;
                p.max_ops = 200;
                p.min_ops = 60;
                p.fin_pct = 10;
            }
            "C19" => {}
            _ => {}
        }
        p
    }
}

pub struct Gen<'a> {
    pub rng: &'a mut Rng,
    pub p: &'a Profile,
}

impl<'a> Gen<'a> {
    fn reg(&mut self) -> u8 {
        self.rng.idx(self.p.regs) as u8
    }
    /// a traced slot: mostly an ordinary one, sometimes the ManuallyDrop one (index NT)
    fn tslot(&mut self) -> u8 {
        if self.rng.chance(1, 8) {
            NT as u8
        } else {
            self.rng.idx(NT) as u8
        }
    }
    fn glob(&mut self) -> u8 {
        self.rng.idx(NG) as u8
    }
    fn src(&mut self) -> Src {
        if self.rng.chance(1, 8) {
            Src::G(self.glob())
        } else {
            Src::R(self.reg())
        }
    }
    fn own(&mut self) -> Own {
        if self.rng.chance(1, 10) {
            Own::G(self.glob())
        } else {
            Own::R(self.reg())
        }
    }
    fn dst(&mut self) -> Dst {
        match self.rng.idx(10) {
            0 => Dst::G(self.glob()),
            _ => Dst::R(self.reg()),
        }
    }
    fn wloc(&mut self) -> WLoc {
        match self.rng.idx(3) {
            0 => WLoc::Of(self.own(), self.rng.idx(NW) as u8),
            _ => WLoc::WR(self.rng.idx(NWR) as u8),
        }
    }

    pub fn fin_act(&mut self, depth: usize) -> Act {
        let resurrect = self.rng.chance(self.p.resurrect_pct as u64, 100);
        if resurrect {
            match self.rng.idx(if self.p.weak_neutral { 4 } else { 9 }) {
                0 => Act::Clone { src: Src::MeT(self.tslot()), dst: Dst::G(self.glob()) },
                1 => Act::Clone { src: Src::MeT(self.tslot()), dst: Dst::Slot(Own::G(self.glob()), self.rng.chance(1, 4), 0) },
                2 => Act::Take { src: Src::MeT(self.tslot()), dst: Dst::G(self.glob()) },
                // a neighbour parked in one of the object's own slots (still only reachable through the garbage)
                3 => Act::Clone { src: Src::MeT(self.tslot()), dst: Dst::Slot(Own::Me, self.rng.chance(1, 3), self.tslot()) },
                // self resurrection through the self-weak kept in weak slot 0
                4 | 5 => Act::Upgrade { src: WLoc::Of(Own::Me, 0), dst: Dst::G(self.glob()) },
                6 => Act::Upgrade { src: WLoc::Of(Own::Me, 1), dst: Dst::G(self.glob()) },
                // ... or into a slot of the object itself / of a neighbour: alive again by its own count, yet unreachable
                7 => Act::Upgrade { src: WLoc::Of(Own::Me, 0), dst: Dst::Slot(Own::Me, self.rng.chance(1, 4), self.tslot()) },
                _ => Act::Upgrade { src: WLoc::Of(Own::Me, self.rng.idx(NW) as u8), dst: Dst::Slot(Own::G(self.glob()), false, self.tslot()) },
            }
        } else {
            match self.rng.idx(14) {
                0 | 1 => Act::Drop { dst: Dst::Slot(Own::Me, false, self.tslot()) },
                2 => Act::Drop { dst: Dst::Slot(Own::Me, true, 0) },
                3 => Act::Drop { dst: Dst::G(self.glob()) },
                4 => {
                    if depth == 0 {
                        let dst = if self.rng.chance(1, 2) { Dst::G(self.glob()) } else { Dst::Discard };
                        if self.rng.chance(1, 3) {
                            Act::NewCyclic { dst, spec: Box::new(Spec::default()), script: vec![], keep: self.rng.idx(4) as u8 }
                        } else {
                            Act::New { dst, spec: Box::new(Spec::default()) }
                        }
                    } else {
                        Act::Query
                    }
                }
                5 => Act::Collect,
                6 => Act::TryUnwrap { reg: Dst::G(self.glob()) },
                7 => Act::FinalizeAgain { reg: Dst::G(self.glob()) },
                8 => Act::Clone { src: Src::G(self.glob()), dst: Dst::Slot(Own::Me, false, self.tslot()) },
                9 => Act::Upgrade { src: WLoc::Of(Own::Me, self.rng.idx(NW) as u8), dst: Dst::Discard },
                10 => Act::MarkAlive { src: Src::MeT(self.tslot()) },
                11 => {
                    if self.rng.chance(1, 2) {
                        Act::Clean { c: self.rng.idx(NC) as u8 }
                    } else {
                        // registering on a live object's cleaner from inside a finalizer
                        Act::Register { own: if self.rng.chance(1, 2) { Own::G(self.glob()) } else { Own::R(self.reg()) }, action: Box::new(ActionSpec { cap: None, wcap: None, script: vec![] }), dst: self.rng.idx(NC) as u8 }
                    }
                }
                12 => Act::Drop { dst: Dst::R(self.reg()) },
                _ => Act::Query,
            }
        }
    }

    pub fn spec(&mut self, depth: usize) -> Spec {
        let mut s = Spec::default();
        if self.rng.chance(self.p.fin_pct as u64, 100) {
            let n = 1 + self.rng.idx(self.p.fin_len.max(1));
            for _ in 0..n {
                let a = self.fin_act(depth);
                s.fin.push(a);
            }
        }
        if self.rng.chance(self.p.drp_pct as u64, 100) {
            let n = 1 + self.rng.idx(2);
            for _ in 0..n {
                s.drp.push(match self.rng.idx(4) {
                    0 | 1 => DAct::UpgradeW(self.rng.idx(NW) as u8),
                    2 => DAct::Collect,
                    _ => DAct::Query,
                });
            }
        }
        s
    }

    pub fn action_spec(&mut self) -> ActionSpec {
        let cap = if self.rng.chance(1, 3) { Some(self.src()) } else { None };
        let wcap = if self.rng.chance(1, 2) { Some(self.wloc()) } else { None };
        let mut script = vec![];
        if self.rng.chance(self.p.action_script_pct as u64, 100) {
            let n = 1 + self.rng.idx(2);
            for _ in 0..n {
                script.push(match self.rng.idx(12) {
                    0 => Act::Drop { dst: Dst::G(self.glob()) },
                    1 => {
                        let dst = if self.rng.chance(1, 2) { Dst::G(self.glob()) } else { Dst::Discard };
                        if self.rng.chance(1, 3) {
                            Act::NewCyclic { dst, spec: Box::new(Spec::default()), script: vec![], keep: self.rng.idx(4) as u8 }
                        } else {
                            Act::New { dst, spec: Box::new(Spec::default()) }
                        }
                    }
                    2 | 3 => Act::Upgrade { src: WLoc::Cap, dst: if self.rng.chance(1, 2) { Dst::G(self.glob()) } else { Dst::Discard } },
                    4 => Act::Clean { c: self.rng.idx(NC) as u8 },
                    5 => Act::Collect,
                    6 => Act::TryUnwrap { reg: Dst::G(self.glob()) },
                    7 => Act::FinalizeAgain { reg: Dst::G(self.glob()) },
                    8 => Act::Take { src: Src::Cap, dst: Dst::G(self.glob()) },
                    9 => Act::Upgrade { src: WLoc::WR(self.rng.idx(NWR) as u8), dst: Dst::Discard },
                    10 => Act::Drop { dst: Dst::R(self.reg()) },
                    _ => Act::Query,
                });
            }
        }
        ActionSpec { cap, wcap, script }
    }

    /// A cycle motif built in registers, then (usually) released so that it becomes garbage for the collector.
    fn motif(&mut self, out: &mut Vec<Act>) {
        let k = 1 + self.rng.idx(3.min(self.p.regs)); // ring size 1..3
        let base = self.rng.idx(self.p.regs);
        let regs: Vec<u8> = (0..k).map(|i| ((base + i) % self.p.regs) as u8).collect();
        for r in &regs {
            let s = self.spec(0);
            out.push(Act::New { dst: Dst::R(*r), spec: Box::new(s) });
            if self.rng.chance(1, 3) {
                out.push(Act::Downgrade { src: Src::R(*r), dst: WLoc::Of(Own::R(*r), 0) });
            }
        }
        for i in 0..k {
            let from = regs[i];
            let to = regs[(i + 1) % k];
            out.push(Act::Clone { src: Src::R(to), dst: Dst::Slot(Own::R(from), false, 0) });
        }
        match self.rng.idx(7) {
            6 => {
                // an object owned by a ring member only through an UNTRACED slot, holding a Weak to another member; its
                // finalizer (and destructor) upgrade that Weak. When the ring is collected it is released by the drop
                // glue of its owner, i.e. by a plain Cc::drop nested in the collector's drop phase.
                let u = self.reg();
                // not in the differential profile of C08: the script resurrects through a Weak, so the run without weak
                // operations legitimately reclaims something else
                if !regs.contains(&u) && !self.p.weak_neutral {
                    let peer = regs[1 % k];
                    let dst = if self.rng.chance(1, 2) { Dst::G(self.glob()) } else { Dst::Discard };
                    out.push(Act::New { dst: Dst::R(u), spec: Box::new(Spec { fin: vec![Act::Upgrade { src: WLoc::Of(Own::Me, 1), dst }], drp: vec![DAct::UpgradeW(1)] }) });
                    out.push(Act::Downgrade { src: Src::R(peer), dst: WLoc::Of(Own::R(u), 1) });
                    out.push(Act::Take { src: Src::R(u), dst: Dst::Slot(Own::R(regs[0]), true, 0) });
                }
            }
            0 => {
                // acyclic tail hanging off the ring
                let t = self.reg();
                if !regs.contains(&t) {
                    out.push(Act::New { dst: Dst::R(t), spec: Box::new(self.spec(0)) });
                    out.push(Act::Take { src: Src::R(t), dst: Dst::Slot(Own::R(regs[0]), false, 1) });
                }
            }
            1 => {
                // ring pinned through a hidden slot of another object
                let t = self.reg();
                if !regs.contains(&t) {
                    out.push(Act::New { dst: Dst::R(t), spec: Box::new(self.spec(0)) });
                    out.push(Act::Clone { src: Src::R(regs[0]), dst: Dst::Slot(Own::R(t), true, 0) });
                }
            }
            2 => {
                // second ring sharing node 0
                if k >= 2 {
                    out.push(Act::Clone { src: Src::R(regs[0]), dst: Dst::Slot(Own::R(regs[k - 1]), false, 1) });
                }
            }
            3 => {
                // weak back edge
                out.push(Act::Downgrade { src: Src::R(regs[0]), dst: WLoc::Of(Own::R(regs[k - 1]), 1) });
            }
            4 if !self.p.weak_neutral => {
                // a member's cleaning action holds a Weak to a peer of the same ring and upgrades it when it runs, i.e.
                // while the ring is being destroyed (or when clean() is called): keeps the result / drops it
                // (not in the differential profile of C08: a kept result changes what is reachable)
                let peer = regs[(1) % k];
                let wr = self.rng.idx(NWR) as u8;
                out.push(Act::Downgrade { src: Src::R(peer), dst: WLoc::WR(wr) });
                let dst = if self.rng.chance(1, 2) { Dst::G(self.glob()) } else { Dst::Discard };
                out.push(Act::Register { own: Own::R(regs[0]), action: Box::new(ActionSpec { cap: None, wcap: Some(WLoc::WR(wr)), script: vec![Act::Upgrade { src: WLoc::Cap, dst }] }), dst: self.rng.idx(NC) as u8 });
                if self.rng.chance(1, 2) {
                    out.push(Act::WDrop { dst: WLoc::WR(wr) });
                }
            }
            _ => {}
        }
        // un-buffering traffic before the handles go
        for _ in 0..self.rng.idx(3) {
            let r = *self.rng.pick(&regs);
            let a = match self.rng.idx(5) {
                0 => Act::MarkAlive { src: Src::R(r) },
                1 => Act::Clone { src: Src::R(r), dst: Dst::Discard },
                2 => Act::Downgrade { src: Src::R(r), dst: WLoc::WR(self.rng.idx(NWR) as u8) },
                3 => Act::Upgrade { src: WLoc::WR(self.rng.idx(NWR) as u8), dst: Dst::Discard },
                _ => Act::Collect,
            };
            out.push(a);
        }
        let keep = self.rng.idx(4) == 0;
        for (i, r) in regs.iter().enumerate() {
            if keep && i == 0 {
                continue;
            }
            out.push(Act::Drop { dst: Dst::R(*r) });
        }
    }

    /// Handle pools up to the documented limits (16382 Cc / 32767 Weak per allocation), attempts beyond them through
    /// both acquisition routes, hysteresis, then release: what the object looks like afterwards is judged by the same
    /// oracles as everything else (counts, finalization, reclamation).
    pub fn saturate(&mut self, out: &mut Vec<Act>) {
        let r = self.reg();
        if self.rng.chance(2, 3) {
            out.push(Act::New { dst: Dst::R(r), spec: Box::new(self.spec(0)) });
        }
        let wr = self.rng.idx(NWR) as u8;
        let with_weak = self.rng.chance(2, 3);
        if with_weak {
            out.push(Act::Downgrade { src: Src::R(r), dst: WLoc::WR(wr) });
        }
        if self.rng.chance(1, 3) {
            // a self edge: the object is also part of a cycle
            out.push(Act::Clone { src: Src::R(r), dst: Dst::Slot(Own::R(r), false, 0) });
        }
        let weak_side = with_weak && self.rng.chance(1, 3);
        if weak_side {
            let via = if self.rng.chance(1, 2) { Some(WLoc::WR(wr)) } else { None };
            out.push(Act::BulkWeak { src: Src::R(r), n: 32760, via });
            out.push(Act::BulkWeak { src: Src::R(r), n: 40, via: if self.rng.chance(1, 2) { Some(WLoc::WR(wr)) } else { None } });
            out.push(Act::BulkWeak { src: Src::R(r), n: 3, via: if via.is_some() { None } else { Some(WLoc::WR(wr)) } });
            if self.rng.chance(1, 2) {
                out.push(Act::BulkWeakDrop { k: 1 + self.rng.idx(3) as u16 });
                out.push(Act::BulkWeak { src: Src::R(r), n: 6, via: None });
            }
            if self.rng.chance(1, 2) {
                out.push(Act::Collect);
            }
        } else {
            let via = if with_weak && self.rng.chance(1, 2) { Some(WLoc::WR(wr)) } else { None };
            out.push(Act::Bulk { src: Src::R(r), n: 16370, via });
            out.push(Act::Bulk { src: Src::R(r), n: 30, via: if with_weak && self.rng.chance(1, 2) { Some(WLoc::WR(wr)) } else { None } });
            // beyond the limit through the other route
            out.push(Act::Bulk { src: Src::R(r), n: 3, via: if via.is_some() || !with_weak { None } else { Some(WLoc::WR(wr)) } });
            if self.rng.chance(1, 2) {
                out.push(Act::BulkDrop { k: 1 + self.rng.idx(3) as u16 });
                out.push(Act::Bulk { src: Src::R(r), n: 6, via: None });
            }
            if self.rng.chance(1, 2) {
                out.push(Act::Collect);
            }
            if self.rng.chance(1, 2) {
                out.push(Act::Drop { dst: Dst::R(r) });
            }
        }
        // a few ordinary operations while the pools are full
        for _ in 0..self.rng.idx(3) {
            let a = match self.rng.idx(4) {
                0 => Act::MarkAlive { src: Src::R(r) },
                1 => Act::Collect,
                2 => Act::Upgrade { src: WLoc::WR(wr), dst: Dst::Discard },
                _ => Act::Query,
            };
            out.push(a);
        }
        match self.rng.idx(3) {
            0 => out.push(Act::BulkDrop { k: u16::MAX }),
            1 => {
                out.push(Act::BulkDrop { k: 16000 });
                out.push(Act::BulkWeakDrop { k: 32000 });
            }
            _ => {}
        }
    }

    fn weak_op(&mut self) -> Act {
        let neutral = self.p.weak_neutral;
        match self.rng.idx(10) {
            0 | 1 | 2 => Act::Downgrade { src: self.src(), dst: self.wloc() },
            3 | 4 | 5 => {
                let dst = if neutral || self.rng.chance(1, 2) { Dst::Discard } else { self.dst() };
                Act::Upgrade { src: self.wloc(), dst }
            }
            6 => Act::WClone { src: self.wloc(), dst: self.wloc() },
            7 | 8 => Act::WDrop { dst: self.wloc() },
            _ => Act::WNew { dst: self.wloc() },
        }
    }

    /// Appends one top-level operation (or one motif: several operations) drawn with the profile's weights.
    pub fn top_op(&mut self, ops: &mut Vec<Act>) {
        let p = self.p;
        let weights = [
            p.w_new, p.w_cyclic, p.w_clone, p.w_take, p.w_drop, p.w_set, p.w_clear, p.w_mark, p.w_weak, p.w_unwrap, p.w_finagain,
            p.w_collect, p.w_quiet, p.w_cleaner, p.w_config, p.w_dropglobal, p.w_motif, p.w_bulk,
        ];
        match self.rng.weighted(&weights) {
            0 => {
                let r = self.reg();
                ops.push(Act::New { dst: Dst::R(r), spec: Box::new(self.spec(0)) });
                if !p.weak_neutral && self.rng.chance(1, 4) {
                    // self-weak in slot 0: what finalizers use to resurrect themselves
                    ops.push(Act::Downgrade { src: Src::R(r), dst: WLoc::Of(Own::R(r), 0) });
                }
            }
            1 => {
                let mut script = vec![];
                for _ in 0..self.rng.idx(3) {
                    script.push(match self.rng.idx(6) {
                        0 => Act::WClone { src: WLoc::Cyc, dst: WLoc::WR(self.rng.idx(NWR) as u8) },
                        1 => Act::Upgrade { src: WLoc::Cyc, dst: Dst::Discard },
                        2 => Act::Collect,
                        3 => Act::New { dst: Dst::G(self.glob()), spec: Box::new(Spec::default()) },
                        4 => Act::Drop { dst: Dst::R(self.reg()) },
                        _ => Act::Query,
                    });
                }
                ops.push(Act::NewCyclic { dst: Dst::R(self.reg()), spec: Box::new(self.spec(0)), script, keep: self.rng.idx(4) as u8 });
            }
            2 => ops.push(Act::Clone { src: self.src(), dst: self.dst() }),
            3 => {
                let a = if self.rng.chance(1, 2) {
                    Act::Take { src: self.src(), dst: self.dst() }
                } else {
                    Act::Take { src: self.src(), dst: Dst::Slot(self.own(), self.rng.chance(p.w_set_hidden_pct as u64, 100), self.tslot()) }
                };
                ops.push(a);
            }
            4 => ops.push(Act::Drop { dst: Dst::R(self.reg()) }),
            5 => {
                let hid = self.rng.chance(p.w_set_hidden_pct as u64, 100);
                let i = if hid { self.rng.idx(NH) as u8 } else { self.tslot() };
                ops.push(Act::Clone { src: self.src(), dst: Dst::Slot(self.own(), hid, i) });
            }
            6 => {
                let hid = self.rng.chance(p.w_set_hidden_pct as u64, 100);
                let i = if hid { self.rng.idx(NH) as u8 } else { self.tslot() };
                ops.push(Act::Drop { dst: Dst::Slot(self.own(), hid, i) });
            }
            7 => ops.push(Act::MarkAlive { src: self.src() }),
            8 => ops.push(self.weak_op()),
            9 => ops.push(Act::TryUnwrap { reg: if self.rng.chance(1, 6) { Dst::G(self.glob()) } else { Dst::R(self.reg()) } }),
            10 => ops.push(Act::FinalizeAgain { reg: if self.rng.chance(1, 6) { Dst::G(self.glob()) } else { Dst::R(self.reg()) } }),
            11 => ops.push(if self.rng.chance(1, 8) { Act::CollectInConfig } else { Act::Collect }),
            12 => ops.push(Act::CollectQuiet),
            13 => {
                let a = match self.rng.idx(6) {
                    0 | 1 | 2 => Act::Register { own: self.own(), action: Box::new(self.action_spec()), dst: self.rng.idx(NC) as u8 },
                    3 | 4 => Act::Clean { c: self.rng.idx(NC) as u8 },
                    _ => Act::CDrop { c: self.rng.idx(NC) as u8 },
                };
                ops.push(a);
            }
            14 => ops.push(Act::Config { auto: self.rng.chance(3, 4), percent: self.rng.idx(PERCENTS.len()) as u8, buffered: self.rng.idx(BUFFERED.len()) as u8 }),
            15 => ops.push(Act::Drop { dst: Dst::G(self.glob()) }),
            16 => self.motif(ops),
            _ => {
                // rare: most draws of this (already low) weight end up as a plain clone
                if self.rng.chance(1, 6) {
                    self.saturate(ops);
                } else {
                    ops.push(Act::Clone { src: self.src(), dst: self.dst() });
                }
            }
        }
    }

    pub fn history(&mut self) -> History {
        let p = self.p;
        let n = p.min_ops + self.rng.idx(p.max_ops - p.min_ops + 1);
        let mut ops: Vec<Act> = Vec::with_capacity(n + 8);
        if self.rng.chance(p.auto_collect_pct as u64, 100) {
            ops.push(Act::Config { auto: true, percent: self.rng.idx(PERCENTS.len()) as u8, buffered: self.rng.idx(BUFFERED.len()) as u8 });
        }
        while ops.len() < n {
            self.top_op(&mut ops);
        }
        History { ops, label: String::new() }
    }
}
