//! C19 workload: N independent interpreters, one per OS thread, each with its own model and all single-thread
//! oracles on; barrier-delimited idle windows check that a thread's counters and configuration do not move while only
//! other threads operate; the allocator log carries thread ids (a block allocated on one thread and released on
//! another is flagged). Schedules are whatever the OS (or Miri's scheduler) produces: reported, not enumerated.
use crate::oracle;
use crate::run::{emit_stats, history_for, run_history, RunCfg, Shard};
use crate::world::*;
use rust_cc::*;
use std::collections::BTreeMap;
use std::sync::{Arc, Barrier, Mutex};
use vcommon::alloc as valloc;
use vcommon::report::{Args, Report};

#[derive(Clone, Debug, PartialEq)]
struct Counters {
    allocated: usize,
    executions: usize,
    buffered: usize,
    config: (bool, u64, usize, usize),
}

fn read_counters() -> Counters {
    #[cfg(feature = "auto-collect")]
    let config = rust_cc::config::config(|c| (c.auto_collect(), c.adjustment_percent().to_bits(), c.buffered_objects_threshold().map_or(0, |b| b.get()))).map(|(a, b, c)| (a, b, c, rust_cc::verif::bytes_threshold().unwrap_or(0))).unwrap_or((false, 0, 0, 0));
    #[cfg(not(feature = "auto-collect"))]
    let config = (false, 0, 0, 0);
    Counters {
        allocated: state::allocated_bytes().unwrap_or(usize::MAX),
        executions: state::executions_count().unwrap_or(usize::MAX),
        buffered: state::buffered_objects_count().unwrap_or(usize::MAX),
        config,
    }
}

struct ThreadOut {
    rep: Report,
}

pub fn main(args: &Args, seed: u64, mode: &str, mut sh: Shard) -> i32 {
    let n = args.usize("--threads", 4).max(2);
    let rounds = args.u64("--rounds", 6);
    let per_round = args.u64("--count", 40);
    let shard = args.u64("--shard", 0);
    let window_count = args.u64("--window-count", 3);
    valloc::set_mode(valloc::MODE_TRACK);
    let barrier = Arc::new(Barrier::new(n));
    let results: Arc<Mutex<Vec<ThreadOut>>> = Arc::new(Mutex::new(Vec::new()));
    let base_args = sh.base_args.clone();
    let props = sh.cfg.props.clone();
    let mode = mode.to_string();
    let mut handles = Vec::new();
    for tid in 0..n {
        let barrier = barrier.clone();
        let results = results.clone();
        let base_args = base_args.clone();
        let props = props.clone();
        let mode = mode.clone();
        handles.push(std::thread::Builder::new().name(format!("ccmon-{}", tid)).spawn(move || {
            oracle::install_observer();
            let wd = w();
            wd.mode.set(Mode { alloc_tracking: true, buffer_walk: true, policy: true, state_hash: false });
            wd.yield_every.set(1 + (tid as u32 % 3));
            wd.judge_idle_after_unwind.set(true);
            crate::run::NO_BULK.with(|b| b.set(true));
            *wd.run_mode.borrow_mut() = mode.clone();
            *wd.run_props.borrow_mut() = props.iter().cloned().collect();
            let mut tsh = Shard { cfg: RunCfg { mode: mode.clone(), props: props.clone(), verbose: false, leak_check: false }, rep: Report::new(), base_args: base_args.clone(), stop: false, mode_props_seen: 0 };
            let mut windows = 0u64;
            let mut idx = 0u64;
            for round in 0..rounds {
                // everybody works
                for _ in 0..per_round {
                    if tsh.stop {
                        break;
                    }
                    let hseed = seed ^ ((shard * 64 + tid as u64) << 20);
                    let Some(h) = history_for("C19", "random", hseed, idx) else { break };
                    idx += 1;
                    let out = run_history(&h, &tsh.cfg, None, None);
                    tsh.rep.evaluations += 1;
                    let ia = vec!["--threads".to_string(), n.to_string(), "--rounds".to_string(), rounds.to_string(), "--count".to_string(), per_round.to_string(), "--shard".to_string(), shard.to_string()];
                    tsh.report(&h, &out, &ia, None, None);
                    if out.nontrivial {
                        tsh.rep.nontrivial(h.hash() ^ ((n as u64) << 56) ^ ((tid as u64) << 48));
                        if tsh.rep.samples.is_empty() {
                            tsh.rep.sample(vcommon::Json::obj().set("thread", tid).set("threads", n).set("label", h.label.as_str()).set("ops", h.render().into_iter().take(30).map(vcommon::Json::from).collect::<Vec<_>>()));
                        }
                    }
                }
                // idle window: half of the threads stand still while the other half keeps operating
                barrier.wait();
                let before = read_counters();
                let idle = (tid as u64 + round) % 2 == 0;
                if !idle {
                    for _ in 0..window_count {
                        let hseed = seed ^ ((shard * 64 + tid as u64) << 20) ^ 0x5555;
                        if let Some(h) = history_for("C19", "random", hseed, idx) {
                            idx += 1;
                            let out = run_history(&h, &tsh.cfg, None, None);
                            tsh.rep.evaluations += 1;
                            tsh.report(&h, &out, &[], None, None);
                        }
                    }
                }
                barrier.wait();
                if idle {
                    windows += 1;
                    let after = read_counters();
                    if before != after && props.contains("C19") {
                        let mut replay = base_args.clone();
                        replay.extend(["--threads".to_string(), n.to_string()]);
                        tsh.rep.viol("C19", "counters_moved_while_idle", "C19:counters_moved_while_idle", &format!("thread {} did nothing between two barriers while other threads ran collections, yet its collector state went from {:?} to {:?}", tid, before, after), &replay);
                    }
                }
            }
            tsh.rep.count("idle_windows_checked", windows);
            tsh.rep.count("thread_runs", 1);
            emit_stats(&mut tsh.rep);
            results.lock().unwrap().push(ThreadOut { rep: tsh.rep });
        }).unwrap());
    }
    let mut died = 0;
    for h in handles {
        if h.join().is_err() {
            died += 1;
        }
    }
    // merge
    let mut counters: BTreeMap<String, u64> = BTreeMap::new();
    for t in results.lock().unwrap().drain(..) {
        sh.rep.evaluations += t.rep.evaluations;
        for (k, v) in t.rep.counters.iter() {
            if k.starts_with("max_") {
                let e = counters.entry(k.clone()).or_insert(0);
                *e = (*e).max(*v);
            } else {
                *counters.entry(k.clone()).or_insert(0) += *v;
            }
        }
        for s in t.rep.samples.iter() {
            if sh.rep.samples.len() < 2 {
                sh.rep.samples.push(s.clone());
            }
        }
        for s in t.rep.inconclusive.iter() {
            sh.rep.inconclusive(s.clone());
        }
        for h in t.rep.nontrivial_hashes() {
            sh.rep.nontrivial(h);
        }
        sh.rep.violations += t.rep.violations;
    }
    for (k, v) in counters {
        if let Some(name) = k.strip_prefix("max_") {
            sh.rep.max(name, v);
        } else {
            sh.rep.count(&k, v);
        }
    }
    // allocator ground truth across threads
    for e in valloc::take_errors() {
        use valloc::ErrKind::*;
        let (o, s, d) = match e.kind {
            CrossThreadFree => ("cross_thread_free", "C19:cross_thread_free", format!("block {:#x} allocated by thread {} was released by thread {}", e.ptr, e.other_size, e.other_align)),
            DoubleFree => ("double_free", "C19:double_free", format!("block {:#x} released twice", e.ptr)),
            LayoutMismatch => ("free_layout_mismatch", "C19:free_layout_mismatch", format!("block {:#x} released with a different layout", e.ptr)),
            TableFull => {
                sh.rep.inconclusive("allocator table full");
                continue;
            }
            _ => continue,
        };
        if sh.cfg.props.contains("C19") {
            let mut replay = sh.base_args.clone();
            replay.extend(["--threads".to_string(), n.to_string()]);
            sh.rep.viol("C19", o, s, &d, &replay);
        }
    }
    if died > 0 {
        sh.rep.inconclusive(format!("{} worker threads panicked (harness)", died));
    }
    sh.rep.count("threads", n as u64);
    sh.rep.set_add("thread_counts", n.to_string());
    sh.rep.set_add("schedules", format!("n={} seed={} shard={}", n, seed, shard));
    sh.rep.emit();
    0
}
