//! The operation interpreter. One primitive for all overwrites (`store`) enforces write-then-release; the model is
//! updated immediately before a release and immediately after an acquisition; no RefCell borrow is held across a
//! call into rust-cc that can run callbacks (drop / new / collect / clean).
use crate::model::*;
use crate::node::*;
use crate::ops::*;
use crate::oracle;
use crate::world::*;
use rust_cc::*;
#[cfg(feature = "weak-ptrs")]
use rust_cc::weak::Weak;
use std::cell::{Cell, RefCell};
use std::panic::{catch_unwind, AssertUnwindSafe};

pub enum Cx<'a> {
    Top,
    Fin(&'a Node),
    #[cfg(feature = "cleaners")]
    Action(&'a ActionState),
    #[cfg(feature = "weak-ptrs")]
    Closure(&'a Weak<Node>, u32),
    #[allow(dead_code)]
    Never(&'a ()),
}

impl<'a> Cx<'a> {
    fn is_top(&self) -> bool {
        matches!(self, Cx::Top)
    }
    fn me(&self) -> Option<&'a Node> {
        match self {
            Cx::Fin(n) => Some(n),
            _ => None,
        }
    }
}

/// State owned by a registered cleaning action (its captures). Dropping it releases the captures.
#[cfg(feature = "cleaners")]
pub struct ActionState {
    pub owner: u32,
    pub idx: usize,
    pub epoch: u32,
    pub cap: RefCell<Option<Cc<Node>>>,
    pub wcap: RefCell<Option<Weak<Node>>>,
    pub script: Vec<Act>,
}

#[cfg(feature = "cleaners")]
impl Drop for ActionState {
    fn drop(&mut self) {
        let Some(wd) = try_w() else { return };
        let cur = wd.epoch.get() == self.epoch;
        let mut cap_id = None;
        if cur {
            let mut m = wd.m.borrow_mut();
            if let Some(a) = m.obj_mut(self.owner).and_then(|o| o.actions.get_mut(self.idx)) {
                a.done = true;
                cap_id = a.cap;
            }
            drop(m);
            if let Some(id) = cap_id {
                oracle::lost_holder(wd, id);
            }
            wd.m.borrow_mut().latch();
        }
        let c = self.cap.borrow_mut().take();
        let wk = self.wcap.borrow_mut().take();
        if c.is_none() {
            cap_id = None;
        }
        let was_last = cap_id.map_or(false, |id| oracle::is_last(wd, id));
        if let Some(id) = cap_id {
            wd.releasing.borrow_mut().push(id);
        }
        {
            let _g = FrameGuard::api(Frame::ApiDrop);
            drop(c);
            if let Some(id) = cap_id {
                let mut r = wd.releasing.borrow_mut();
                if let Some(p) = r.iter().rposition(|x| *x == id) {
                    r.remove(p);
                }
            }
            drop(wk);
        }
        if let Some(id) = cap_id {
            oracle::after_release(wd, id, was_last);
        }
    }
}

// ---------------------------------------------------------------------------------------------------------------
// API call wrapper

/// What the interpreter learns when a panic arrives at the API boundary.
fn after_panic(payload: Box<dyn std::any::Any + Send>, what: &str) {
    let wd = w();
    wd.degraded.set(true);
    match payload.downcast_ref::<Injected>() {
        Some(_) => {}
        None => {
            let msg = if let Some(s) = payload.downcast_ref::<&str>() {
                s.to_string()
            } else if let Some(s) = payload.downcast_ref::<String>() {
                s.clone()
            } else {
                "<non-string payload>".to_string()
            };
            let short: String = msg.chars().take(60).collect::<String>().replace(|c: char| c.is_ascii_digit(), "N");
            if wd.fault_fired.get() > 0 {
                wd.err("C07", "foreign_panic", format!("foreign_panic_after_fault:{}:{}", what, short), format!("a panic that is not the injected one arrived from {}: {}", what, msg));
            } else {
                wd.err("C01", "unexpected_panic", format!("unexpected_panic:{}:{}", what, short), format!("{} panicked in a program that raises no panic: {}", what, msg));
            }
        }
    }
    oracle::after_unwind(wd, what);
}

/// Calls into the crate. At top level a panic is caught here (the API boundary); inside callbacks it propagates
/// through the crate's frames to the top-level call.
fn api<R>(frame: Frame, cx: &Cx, what: &str, f: impl FnOnce() -> R) -> Option<R> {
    let g = FrameGuard::api(frame);
    if cx.is_top() {
        match catch_unwind(AssertUnwindSafe(f)) {
            Ok(r) => Some(r),
            Err(p) => {
                drop(g);
                after_panic(p, what);
                None
            }
        }
    } else {
        Some(f())
    }
}

/// Restores a Cell<bool> on drop.
struct Restore<'a>(&'a Cell<bool>, bool);
impl Drop for Restore<'_> {
    fn drop(&mut self) {
        self.0.set(self.1);
    }
}

struct TruncPending(usize, usize);
impl TruncPending {
    fn new() -> TruncPending {
        let wd = w();
        TruncPending(wd.pending_box.borrow().len(), wd.pending_side.borrow().len())
    }
}
impl Drop for TruncPending {
    fn drop(&mut self) {
        if let Some(wd) = try_w() {
            if let Ok(mut p) = wd.pending_box.try_borrow_mut() {
                p.truncate(self.0);
            }
            if let Ok(mut p) = wd.pending_side.try_borrow_mut() {
                p.truncate(self.1);
            }
        }
    }
}

// ---------------------------------------------------------------------------------------------------------------
// location resolution

fn src_cell<'a>(src: Src, cx: &Cx<'a>) -> Option<&'a RefCell<Option<Cc<Node>>>> {
    let wd = w();
    match src {
        Src::R(i) => wd.r.get(i as usize),
        Src::G(i) => wd.g.get(i as usize),
        Src::MeT(i) => cx.me().and_then(|n| n.tslot(i as usize)),
        Src::MeH(i) => cx.me().and_then(|n| n.h.get(i as usize)),
        Src::Cap => match cx {
            #[cfg(feature = "cleaners")]
            Cx::Action(a) => Some(&a.cap),
            _ => None,
        },
    }
}

fn src_id(src: Src, cx: &Cx) -> Option<u32> {
    let wd = w();
    let m = wd.m.borrow();
    match src {
        Src::R(i) => m.r.get(i as usize).copied().flatten(),
        Src::G(i) => m.g.get(i as usize).copied().flatten(),
        Src::MeT(i) => cx.me().and_then(|n| m.obj(n.id)).and_then(|o| o.t.get(i as usize).copied().flatten()),
        Src::MeH(i) => cx.me().and_then(|n| m.obj(n.id)).and_then(|o| o.h.get(i as usize).copied().flatten()),
        Src::Cap => match cx {
            #[cfg(feature = "cleaners")]
            Cx::Action(a) => m.obj(a.owner).and_then(|o| o.actions.get(a.idx)).and_then(|x| if x.done { None } else { x.cap }),
            _ => None,
        },
    }
}

fn own_id(own: Own, cx: &Cx) -> Option<u32> {
    let wd = w();
    let m = wd.m.borrow();
    match own {
        Own::R(i) => m.r.get(i as usize).copied().flatten(),
        Own::G(i) => m.g.get(i as usize).copied().flatten(),
        Own::Me => cx.me().map(|n| n.id),
    }
}

/// Pointer to the node designated by `own`. Only valid until the next release.
fn own_node(own: Own, cx: &Cx) -> Option<*const Node> {
    let wd = w();
    match own {
        Own::R(i) => wd.r.get(i as usize).and_then(|c| c.borrow().as_ref().map(|cc| &**cc as *const Node)),
        Own::G(i) => wd.g.get(i as usize).and_then(|c| c.borrow().as_ref().map(|cc| &**cc as *const Node)),
        Own::Me => cx.me().map(|n| n as *const Node),
    }
}

fn clone_src(src: Src, cx: &Cx) -> Option<(Cc<Node>, u32)> {
    let id = src_id(src, cx)?;
    let cell = src_cell(src, cx)?;
    // at the documented limit only the pool operations (Act::Bulk) try to acquire: they expect the panic
    if w().m.borrow().holders(id).1 >= STRONG_LIMIT {
        return None;
    }
    let _g = FrameGuard::api(Frame::ApiOther);
    let c = cell.borrow().as_ref().map(|c| c.clone())?;
    drop(_g);
    oracle::acquired(w(), id, oracle::Leave::Clone);
    Some((c, id))
}

// ---------------------------------------------------------------------------------------------------------------
// the overwrite primitive

fn release(x: Option<Cc<Node>>, id: Option<u32>, cx: &Cx) {
    let Some(c) = x else { return };
    let wd = w();
    if let Some(id) = id {
        wd.releasing.borrow_mut().push(id);
    }
    struct PopReleasing(Option<u32>);
    impl Drop for PopReleasing {
        fn drop(&mut self) {
            if let (Some(id), Some(wd)) = (self.0, try_w()) {
                if let Ok(mut r) = wd.releasing.try_borrow_mut() {
                    if let Some(p) = r.iter().rposition(|x| *x == id) {
                        r.remove(p);
                    }
                }
            }
        }
    }
    let pop = PopReleasing(id);
    let was_last = id.map_or(false, |id| oracle::is_last(wd, id));
    if wd.feat_on.get() {
        let sn = rust_cc::verif::object_snapshot(&c);
        wd.feature(FT_RELEASE, was_last as u64 | (wd.in_collection.get() as u64) << 1 | (wd.coll_drop_phase.get() as u64) << 2, (sn.mark as u64) | (sn.finalized as u64) << 8 | (sn.has_side_record as u64) << 9 | ((sn.tracing_counter.min(2)) as u64) << 10);
    }
    let _ = api(Frame::ApiDrop, cx, "Cc::drop", move || drop(c));
    drop(pop);
    if let Some(id) = id {
        oracle::after_release(wd, id, was_last);
    }
}

/// Installs `new` at `dst` in the real location and in the model, then releases what was there.
fn store(dst: Dst, cx: &Cx, new: Option<Cc<Node>>, new_id: Option<u32>) {
    let wd = w();
    let was_reach = new_id.map(|id| wd.m.borrow().reach().contains(&id));
    let (old, old_id): (Option<Cc<Node>>, Option<u32>) = match dst {
        Dst::Discard => {
            // the value is released immediately: it never becomes a holder in the model
            if let Some(id) = new_id {
                oracle::lost_holder(wd, id);
            }
            wd.m.borrow_mut().latch();
            release(new, new_id, cx);
            return;
        }
        Dst::R(i) => {
            let i = i as usize;
            let old = wd.r[i].replace(new);
            let old_id = std::mem::replace(&mut wd.m.borrow_mut().r[i], new_id);
            (old, old_id)
        }
        Dst::G(i) => {
            let i = i as usize;
            let old = wd.g[i].replace(new);
            let old_id = std::mem::replace(&mut wd.m.borrow_mut().g[i], new_id);
            (old, old_id)
        }
        Dst::Slot(own, hid, i) => {
            let i = i as usize % if hid { NH } else { NTM };
            let (Some(oid), Some(p)) = (own_id(own, cx), own_node(own, cx)) else {
                if let Some(id) = new_id {
                    oracle::lost_holder(wd, id);
                }
                wd.m.borrow_mut().latch();
                release(new, new_id, cx);
                return;
            };
            let n = unsafe { &*p };
            let cell = if hid { &n.h[i] } else { n.tslot(i).unwrap() };
            let old = cell.replace(new);
            let mut m = wd.m.borrow_mut();
            let o = m.obj_mut(oid).unwrap();
            let slot = if hid { &mut o.h[i] } else { &mut o.t[i] };
            let old_id = std::mem::replace(slot, new_id);
            (old, old_id)
        }
    };
    if let Some(id) = old_id {
        oracle::lost_holder(wd, id);
    }
    wd.m.borrow_mut().latch();
    if let (Some(id), Some(false)) = (new_id, was_reach) {
        let now = wd.m.borrow().reach().contains(&id);
        if now && wd.stack.borrow().iter().any(|f| matches!(f, Frame::Cb(Cb::Finalize, _))) {
            oracle::resurrected(wd, id);
        }
    }
    release(old, old_id, cx);
}

// ---------------------------------------------------------------------------------------------------------------
// weak locations

#[cfg(feature = "weak-ptrs")]
fn wloc_target(loc: WLoc, cx: &Cx) -> WT {
    let wd = w();
    let m = wd.m.borrow();
    match loc {
        WLoc::WR(i) => m.wr.get(i as usize).copied().unwrap_or(WT::None),
        WLoc::Of(own, i) => {
            drop(m);
            let Some(oid) = own_id(own, cx) else { return WT::None };
            wd.m.borrow().obj(oid).and_then(|o| o.w.get(i as usize).copied()).unwrap_or(WT::None)
        }
        WLoc::Cap => match cx {
            #[cfg(feature = "cleaners")]
            Cx::Action(a) => m.obj(a.owner).and_then(|o| o.actions.get(a.idx)).map(|x| if x.done { WT::None } else { x.wcap }).unwrap_or(WT::None),
            _ => WT::None,
        },
        WLoc::Cyc => match cx {
            Cx::Closure(_, id) => WT::To(*id),
            _ => WT::None,
        },
    }
}

/// Runs `f` on the Weak at `loc` (shared borrow; `f` must not run callbacks).
#[cfg(feature = "weak-ptrs")]
fn with_weak<R>(loc: WLoc, cx: &Cx, f: impl FnOnce(&Weak<Node>) -> R) -> Option<R> {
    let wd = w();
    match loc {
        WLoc::WR(i) => wd.wr.get(i as usize).and_then(|c| c.borrow().as_ref().map(f)),
        WLoc::Of(own, i) => {
            let p = own_node(own, cx)?;
            let n = unsafe { &*p };
            let r = n.w.get(i as usize)?.borrow().as_ref().map(f);
            r
        }
        WLoc::Cap => match cx {
            #[cfg(feature = "cleaners")]
            Cx::Action(a) => a.wcap.borrow().as_ref().map(f),
            _ => None,
        },
        WLoc::Cyc => match cx {
            Cx::Closure(wk, _) => Some(f(wk)),
            _ => None,
        },
    }
}

#[cfg(feature = "weak-ptrs")]
fn wstore(dst: WLoc, cx: &Cx, new: Option<Weak<Node>>, t: WT) {
    let wd = w();
    let old: Option<Weak<Node>>;
    match dst {
        WLoc::WR(i) => {
            let i = i as usize;
            old = wd.wr[i].replace(new);
            wd.m.borrow_mut().wr[i] = t;
        }
        WLoc::Of(own, i) => {
            let i = i as usize % NW;
            let (Some(oid), Some(p)) = (own_id(own, cx), own_node(own, cx)) else {
                let _g = FrameGuard::api(Frame::ApiOther);
                drop(new);
                return;
            };
            let n = unsafe { &*p };
            old = n.w[i].replace(new);
            wd.m.borrow_mut().obj_mut(oid).unwrap().w[i] = t;
        }
        WLoc::Cap | WLoc::Cyc => {
            let _g = FrameGuard::api(Frame::ApiOther);
            drop(new);
            return;
        }
    }
    let _g = FrameGuard::api(Frame::ApiOther);
    drop(old);
}

// ---------------------------------------------------------------------------------------------------------------
// exec

pub fn exec(a: &Act, cx: &Cx) {
    let wd = w();
    if wd.failed() {
        return;
    }
    if wd.noweak.get() && a.is_weak_op() {
        return;
    }
    wd.tlog(|| format!("{:?}", a));
    bump(&wd.stats.ops);
    if wd.feat_on.get() {
        let k = a.kind().bytes().fold(0u64, |h, b| h.wrapping_mul(31).wrapping_add(b as u64));
        let c = match cx {
            Cx::Top => 0,
            Cx::Fin(_) => 1,
            #[cfg(feature = "cleaners")]
            Cx::Action(_) => 2,
            #[cfg(feature = "weak-ptrs")]
            Cx::Closure(..) => 3,
            Cx::Never(_) => 4,
        };
        wd.feature(FT_EXEC, k, c);
    }
    match a {
        Act::New { dst, spec } => op_new(*dst, spec, cx),
        Act::NewCyclic { dst, spec, script, keep } => {
            #[cfg(feature = "weak-ptrs")]
            op_new_cyclic(*dst, spec, script, *keep, cx);
            #[cfg(not(feature = "weak-ptrs"))]
            {
                let _ = (script, keep);
                op_new(*dst, spec, cx);
            }
        }
        Act::Clone { src, dst } => {
            if dst_exists(*dst, cx) {
                if let Some((c, id)) = clone_src(*src, cx) {
                    store(*dst, cx, Some(c), Some(id));
                }
            }
        }
        Act::Take { src, dst } => {
            if !dst_exists(*dst, cx) || same_place(*src, *dst) {
                return;
            }
            let Some(id) = src_id(*src, cx) else { return };
            let Some(cell) = src_cell(*src, cx) else { return };
            let v = cell.replace(None);
            clear_src_model(*src, cx);
            store(*dst, cx, v, Some(id));
        }
        Act::Drop { dst } => store(*dst, cx, None, None),
        Act::MarkAlive { src } => {
            if let (Some(id), Some(cell)) = (src_id(*src, cx), src_cell(*src, cx)) {
                {
                    let _g = FrameGuard::api(Frame::ApiOther);
                    if let Some(c) = cell.borrow().as_ref() {
                        c.mark_alive();
                    }
                }
                oracle::acquired(wd, id, oracle::Leave::MarkAlive);
            }
        }
        #[cfg(feature = "weak-ptrs")]
        Act::Downgrade { src, dst } => {
            if let (Some(id), Some(cell)) = (src_id(*src, cx), src_cell(*src, cx)) {
                if wd.m.borrow().weak_holders(id).1 >= WEAK_LIMIT {
                    return;
                }
                let _t = TruncPending::new();
                wd.pending_side.borrow_mut().push(BoxOwner::Node(id));
                let wk = {
                    let _g = FrameGuard::api(Frame::ApiOther);
                    let r = cell.borrow().as_ref().map(|c| c.downgrade());
                    r
                };
                if wk.is_some() {
                    oracle::acquired(wd, id, oracle::Leave::Downgrade);
                    wstore(*dst, cx, wk, WT::To(id));
                }
            }
        }
        #[cfg(feature = "weak-ptrs")]
        Act::Upgrade { src, dst } => op_upgrade(*src, *dst, cx),
        #[cfg(feature = "weak-ptrs")]
        Act::WClone { src, dst } => {
            let t = wloc_target(*src, cx);
            if let WT::To(id) = t {
                if wd.m.borrow().weak_holders(id).1 >= WEAK_LIMIT {
                    return;
                }
            }
            let wk = {
                let _g = FrameGuard::api(Frame::ApiOther);
                with_weak(*src, cx, |x| x.clone())
            };
            if wk.is_some() {
                wstore(*dst, cx, wk, t);
            }
        }
        #[cfg(feature = "weak-ptrs")]
        Act::WDrop { dst } => wstore(*dst, cx, None, WT::None),
        #[cfg(feature = "weak-ptrs")]
        Act::WNew { dst } => wstore(*dst, cx, Some(Weak::new()), WT::Dangling),
        #[cfg(not(feature = "weak-ptrs"))]
        Act::Downgrade { .. } | Act::Upgrade { .. } | Act::WClone { .. } | Act::WDrop { .. } | Act::WNew { .. } => {}
        Act::TryUnwrap { reg } => op_try_unwrap(*reg, cx),
        Act::FinalizeAgain { reg } => op_finalize_again(*reg, cx),
        Act::Collect => op_collect(cx),
        Act::CollectInConfig => {
            if cx.is_top() {
                // collect until quiet, every call issued from inside a config closure; then the C02 comparison
                IN_CONFIG.with(|c| c.set(true));
                op_collect_quiet(cx);
                IN_CONFIG.with(|c| c.set(false));
            } else {
                op_collect(cx)
            }
        }
        Act::CollectQuiet => {
            if cx.is_top() {
                op_collect_quiet(cx)
            } else {
                op_collect(cx)
            }
        }
        #[cfg(feature = "cleaners")]
        Act::Register { own, action, dst } => op_register(*own, action, *dst, cx),
        #[cfg(feature = "cleaners")]
        Act::Clean { c } => op_clean(*c, cx),
        #[cfg(feature = "cleaners")]
        Act::CDrop { c } => {
            let i = *c as usize;
            let old = wd.cr[i].take();
            wd.m.borrow_mut().cr[i] = None;
            let _g = FrameGuard::api(Frame::ApiOther);
            drop(old);
        }
        #[cfg(not(feature = "cleaners"))]
        Act::Register { .. } | Act::Clean { .. } | Act::CDrop { .. } => {}
        Act::Config { auto, percent, buffered } => {
            #[cfg(feature = "auto-collect")]
            {
                let p = PERCENTS[*percent as usize % PERCENTS.len()];
                let b = BUFFERED[*buffered as usize % BUFFERED.len()];
                let r = rust_cc::config::config(|c| {
                    c.set_auto_collect(*auto);
                    c.set_adjustment_percent(p);
                    c.set_buffered_objects_threshold(std::num::NonZeroUsize::new(b));
                });
                if r.is_ok() {
                    wd.auto_on.set(*auto);
                }
            }
            #[cfg(not(feature = "auto-collect"))]
            {
                let _ = (auto, percent, buffered);
            }
        }
        Act::Query => oracle::query(wd, cx.me()),
        Act::Bulk { src, n, via } => op_bulk(*src, *n, *via, cx),
        Act::BulkDrop { k } => op_bulk_drop(*k, cx),
        #[cfg(feature = "weak-ptrs")]
        Act::BulkWeak { src, n, via } => op_bulk_weak(*src, *n, *via, cx),
        #[cfg(feature = "weak-ptrs")]
        Act::BulkWeakDrop { k } => op_bulk_weak_drop(*k, cx),
        #[cfg(not(feature = "weak-ptrs"))]
        Act::BulkWeak { .. } | Act::BulkWeakDrop { .. } => {}
    }
}

// ---------------------------------------------------------------------------------------------------------------
// the program's handle pools: how counts get near the documented limits (16382 Cc, 32767 Weak per allocation)

/// Calls `f` (an acquisition that panics when the limit is reached); Err = it panicked.
fn acquire<R>(f: impl FnOnce() -> R) -> Result<R, ()> {
    let wd = w();
    let _g = FrameGuard::api(Frame::ApiOther);
    wd.expected_panics.set(wd.expected_panics.get() + 1);
    let r = catch_unwind(AssertUnwindSafe(f));
    wd.expected_panics.set(wd.expected_panics.get().saturating_sub(1));
    r.map_err(|_| ())
}

fn op_bulk(src: Src, n: u16, via: Option<WLoc>, cx: &Cx) {
    let wd = w();
    if !cx.is_top() {
        return;
    }
    let (Some(id), Some(cell)) = (src_id(src, cx), src_cell(src, cx)) else { return };
    #[cfg(feature = "weak-ptrs")]
    let via = via.filter(|l| wloc_target(*l, cx) == WT::To(id));
    #[cfg(not(feature = "weak-ptrs"))]
    let via: Option<WLoc> = { let _ = via; None };
    let mut have = wd.m.borrow().holders(id).1;
    for _ in 0..n {
        let r: Result<Option<Cc<Node>>, ()> = match via {
            #[cfg(feature = "weak-ptrs")]
            Some(l) => acquire(|| with_weak(l, cx, |x| x.upgrade()).flatten()),
            _ => acquire(|| cell.borrow().as_ref().map(|c| c.clone())),
        };
        match r {
            Ok(Some(c)) => {
                // beyond the documented limit: C16's own check (p_ptr) judges the missing panic; here the run goes on and
                // the oracles of the other properties see what the over-full counter does to the object
                if have >= STRONG_LIMIT {
                    bump(&wd.stats.beyond_limit);
                }
                have += 1;
                wd.m.borrow_mut().bulk_add(id, 1, false);
                oracle::acquired(wd, id, if via.is_some() { oracle::Leave::Upgrade } else { oracle::Leave::Clone });
                wd.bulk.borrow_mut().push((id, c));
            }
            Ok(None) => break,
            Err(()) => {
                bump(&wd.stats.limit_refusals);
                if have < STRONG_LIMIT {
                    wd.err("C16", "refused_below_strong_limit", "refused_below_limit".into(), format!("acquiring handle number {} to #{} panicked (limit {})", have + 1, id, STRONG_LIMIT));
                }
                break;
            }
        }
    }
}

fn op_bulk_drop(k: u16, cx: &Cx) {
    let wd = w();
    if !cx.is_top() {
        return;
    }
    for _ in 0..k {
        let Some((id, c)) = wd.bulk.borrow_mut().pop() else { break };
        wd.m.borrow_mut().bulk_add(id, -1, false);
        oracle::lost_holder(wd, id);
        // the pool stops being a root of the object when its last pooled handle goes (reachability may change then)
        if wd.m.borrow().bulk_count(id) == 0 {
            wd.m.borrow_mut().latch();
        }
        release(Some(c), Some(id), cx);
        if wd.failed() {
            break;
        }
    }
}

#[cfg(feature = "weak-ptrs")]
fn op_bulk_weak(src: Src, n: u16, via: Option<WLoc>, cx: &Cx) {
    let wd = w();
    if !cx.is_top() {
        return;
    }
    let (Some(id), Some(cell)) = (src_id(src, cx), src_cell(src, cx)) else { return };
    let via = via.filter(|l| wloc_target(*l, cx) == WT::To(id));
    let mut have = wd.m.borrow().weak_holders(id).1;
    let mut first = true;
    for _ in 0..n {
        let _t = TruncPending::new();
        if via.is_none() && first {
            wd.pending_side.borrow_mut().push(BoxOwner::Node(id));
        }
        let r: Result<Option<Weak<Node>>, ()> = match via {
            Some(l) => acquire(|| with_weak(l, cx, |x| x.clone())),
            None => acquire(|| cell.borrow().as_ref().map(|c| c.downgrade())),
        };
        first = false;
        match r {
            Ok(Some(wk)) => {
                if have >= WEAK_LIMIT {
                    bump(&wd.stats.beyond_limit);
                }
                have += 1;
                wd.m.borrow_mut().bulk_add(id, 1, true);
                if via.is_none() {
                    oracle::acquired(wd, id, oracle::Leave::Downgrade);
                }
                wd.wbulk.borrow_mut().push((id, wk));
            }
            Ok(None) => break,
            Err(()) => {
                bump(&wd.stats.limit_refusals);
                if have < WEAK_LIMIT {
                    wd.err("C16", "refused_below_weak_limit", "refused_below_limit".into(), format!("acquiring Weak pointer number {} to #{} panicked (limit {})", have + 1, id, WEAK_LIMIT));
                }
                break;
            }
        }
    }
}

#[cfg(feature = "weak-ptrs")]
fn op_bulk_weak_drop(k: u16, cx: &Cx) {
    let wd = w();
    if !cx.is_top() {
        return;
    }
    for _ in 0..k {
        let Some((id, wk)) = wd.wbulk.borrow_mut().pop() else { break };
        wd.m.borrow_mut().bulk_add(id, -1, true);
        let _g = FrameGuard::api(Frame::ApiOther);
        drop(wk);
    }
}

fn same_place(src: Src, dst: Dst) -> bool {
    matches!((src, dst), (Src::R(a), Dst::R(b)) if a == b) || matches!((src, dst), (Src::G(a), Dst::G(b)) if a == b)
}

fn dst_exists(dst: Dst, cx: &Cx) -> bool {
    match dst {
        Dst::Slot(own, _, _) => own_id(own, cx).is_some() && own_node(own, cx).is_some(),
        _ => true,
    }
}

fn clear_src_model(src: Src, cx: &Cx) {
    let wd = w();
    let mut m = wd.m.borrow_mut();
    match src {
        Src::R(i) => m.r[i as usize] = None,
        Src::G(i) => m.g[i as usize] = None,
        Src::MeT(i) => {
            if let Some(o) = cx.me().and_then(|n| m.obj_mut(n.id)) {
                o.t[i as usize] = None;
            }
        }
        Src::MeH(i) => {
            if let Some(o) = cx.me().and_then(|n| m.obj_mut(n.id)) {
                o.h[i as usize] = None;
            }
        }
        Src::Cap => {
            #[cfg(feature = "cleaners")]
            if let Cx::Action(a) = cx {
                if let Some(x) = m.obj_mut(a.owner).and_then(|o| o.actions.get_mut(a.idx)) {
                    x.cap = None;
                }
            }
        }
    }
}

// ---------------------------------------------------------------------------------------------------------------
// creation

fn op_new(dst: Dst, spec: &Spec, cx: &Cx) {
    let wd = w();
    if !dst_exists(dst, cx) {
        return;
    }
    let id = wd.m.borrow_mut().add(spec.clone());
    let node = Node::build(wd.epoch.get(), id);
    let pre = oracle::pre_new(wd);
    let _t = TruncPending::new();
    wd.pending_box.borrow_mut().push(BoxOwner::Node(id));
    let was = wd.in_collection.get();
    let res = {
        let _r = Restore(&wd.in_collection, was);
        let r = api(Frame::ApiNew, cx, "Cc::new", move || Cc::new(node));
        if !was && wd.in_collection.get() {
            oracle::auto_collection_done(wd, &pre, r.is_some());
        }
        r
    };
    oracle::post_new(wd, &pre, res.is_some(), "Cc::new");
    match res {
        Some(cc) => {
            oracle::created(wd, id, &cc, false);
            store(dst, cx, Some(cc), Some(id));
        }
        None => {
            // unwound: the value was dropped by the unwinding (its Drop shim ran) or leaked
        }
    }
}

#[cfg(feature = "weak-ptrs")]
fn op_new_cyclic(dst: Dst, spec: &Spec, script: &[Act], keep: u8, cx: &Cx) {
    let wd = w();
    if !dst_exists(dst, cx) {
        return;
    }
    let id = wd.m.borrow_mut().add(spec.clone());
    {
        let mut m = wd.m.borrow_mut();
        let o = m.obj_mut(id).unwrap();
        o.val = Val::Uninit;
        o.cyclic = true;
    }
    let epoch = wd.epoch.get();
    let pre = oracle::pre_new(wd);
    let _t = TruncPending::new();
    wd.pending_box.borrow_mut().push(BoxOwner::Node(id));
    wd.pending_side.borrow_mut().push(BoxOwner::Node(id));
    let was = wd.in_collection.get();
    let closure_ran = Cell::new(false);
    let res = {
        let _r = Restore(&wd.in_collection, was);
        let r = api(Frame::ApiNew, cx, "Cc::new_cyclic", || {
            Cc::new_cyclic(|wk: &Weak<Node>| {
                let wd = w();
                let _g = FrameGuard::cb(Cb::Closure, id);
                // a collection started by new_cyclic's own allocation is over by now
                if !was && wd.in_collection.get() {
                    oracle::auto_collection_done(wd, &pre, true);
                    wd.in_collection.set(false);
                }
                closure_ran.set(true);
                oracle::cyclic_closure_start(wd, &pre);
                wd.m.borrow_mut().cyc.push(id);
                struct PopCyc(u32);
                impl Drop for PopCyc {
                    fn drop(&mut self) {
                        if let Some(wd) = try_w() {
                            if let Ok(mut m) = wd.m.try_borrow_mut() {
                                if let Some(p) = m.cyc.iter().rposition(|x| *x == self.0) {
                                    m.cyc.remove(p);
                                }
                            }
                        }
                    }
                }
                oracle::in_cyclic_closure(wd, wk, id);
                let ccx = Cx::Closure(wk, id);
                for a in script {
                    exec(a, &ccx);
                }
                oracle::in_cyclic_closure(wd, wk, id);
                // the provided Weak stays alive until new_cyclic returns: it keeps counting as a weak holder
                let pop = PopCyc(id);
                std::mem::forget(pop);
                wd.fault_point(Cb::Closure);
                let node = Node::build(epoch, id);
                for i in 0..NW {
                    if keep & (1 << i) != 0 {
                        let c = {
                            let _g = FrameGuard::api(Frame::ApiOther);
                            wk.clone()
                        };
                        *node.w[i].borrow_mut() = Some(c);
                        wd.m.borrow_mut().obj_mut(id).unwrap().w[i] = WT::To(id);
                    }
                }
                // from here on the value exists (it is moved into the box by new_cyclic)
                wd.m.borrow_mut().obj_mut(id).unwrap().val = Val::Unboxed;
                node
            })
        });
        if !was && wd.in_collection.get() {
            oracle::auto_collection_done(wd, &pre, r.is_some());
        }
        r
    };
    // the closure-local Weak is gone now (dropped by new_cyclic on return, or by the unwinding)
    {
        let mut m = wd.m.borrow_mut();
        if let Some(p) = m.cyc.iter().rposition(|x| *x == id) {
            m.cyc.remove(p);
        }
    }
    oracle::post_new(wd, &pre, res.is_some(), "Cc::new_cyclic");
    match res {
        Some(cc) => {
            oracle::created(wd, id, &cc, true);
            bump(&wd.stats.cyclic_ok);
            store(dst, cx, Some(cc), Some(id));
        }
        None => {
            bump(&wd.stats.cyclic_panicked);
            oracle::cyclic_unwound(wd, id, closure_ran.get());
        }
    }
}

// ---------------------------------------------------------------------------------------------------------------
// weak upgrade

#[cfg(feature = "weak-ptrs")]
fn op_upgrade(src: WLoc, dst: Dst, cx: &Cx) {
    let wd = w();
    let t = wloc_target(src, cx);
    if t == WT::None {
        return;
    }
    if !dst_exists(dst, cx) {
        return;
    }
    if let WT::To(id) = t {
        if wd.m.borrow().holders(id).1 >= STRONG_LIMIT {
            return;
        }
    }
    let verdict = oracle::upgrade_expectation(wd, t);
    let res = {
        let _g = FrameGuard::api(Frame::ApiOther);
        with_weak(src, cx, |x| x.upgrade())
    };
    let Some(res) = res else { return };
    wd.feature(FT_UPGRADE, res.is_some() as u64, wd.coll_drop_phase.get() as u64 | (wd.in_collection.get() as u64) << 1);
    match res {
        Some(c) => {
            let ok = oracle::upgrade_some(wd, t, &c, verdict);
            if ok {
                let WT::To(id) = t else { unreachable!() };
                oracle::acquired(wd, id, oracle::Leave::Upgrade);
                store(dst, cx, Some(c), Some(id));
            } else {
                // a handle to a dead value: never touch it again
                std::mem::forget(c);
            }
        }
        None => oracle::upgrade_none(wd, t, verdict),
    }
}

// ---------------------------------------------------------------------------------------------------------------
// try_unwrap / finalize_again

fn reg_cell(reg: Dst) -> Option<(&'static RefCell<Option<Cc<Node>>>, bool, usize)> {
    let wd = w();
    match reg {
        Dst::R(i) => wd.r.get(i as usize).map(|c| (c, false, i as usize)),
        Dst::G(i) => wd.g.get(i as usize).map(|c| (c, true, i as usize)),
        _ => None,
    }
}

fn op_try_unwrap(reg: Dst, cx: &Cx) {
    let wd = w();
    let Some((cell, is_g, i)) = reg_cell(reg) else { return };
    let Some(id) = (if is_g { wd.m.borrow().g[i] } else { wd.m.borrow().r[i] }) else { return };
    let Some(cc) = cell.replace(None) else { return };
    let pre = oracle::pre_try_unwrap(wd, id, &cc);
    wd.unwrapping.set(Some(id));
    let res = {
        let _g = FrameGuard::api(Frame::ApiOther);
        cc.try_unwrap()
    };
    wd.unwrapping.set(None);
    wd.feature(FT_UNWRAP, res.is_ok() as u64, 0);
    match res {
        Ok(v) => {
            // the register no longer holds a handle
            if is_g {
                wd.m.borrow_mut().g[i] = None;
            } else {
                wd.m.borrow_mut().r[i] = None;
            }
            bump(&wd.stats.try_unwrap_ok);
            oracle::try_unwrap_ok(wd, id, &pre, &v);
            wd.m.borrow_mut().latch();
            // the program owns the value now; dropping it runs its Drop shim and releases its slots
            {
                let _ = api(Frame::ApiDrop, cx, "drop(unwrapped value)", move || drop(v));
            }
            let mut m = wd.m.borrow_mut();
            if let Some(o) = m.obj_mut(id) {
                o.glue_pending = false;
            }
        }
        Err(c) => {
            bump(&wd.stats.try_unwrap_err);
            oracle::try_unwrap_err(wd, id, &pre, &c);
            let back = cell.replace(Some(c));
            // nothing can have refilled the register: no callback ran
            drop(back);
        }
    }
}

fn op_finalize_again(reg: Dst, cx: &Cx) {
    #[cfg(feature = "finalization")]
    {
        let wd = w();
        let Some((cell, is_g, i)) = reg_cell(reg) else { return };
        let Some(id) = (if is_g { wd.m.borrow().g[i] } else { wd.m.borrow().r[i] }) else { return };
        let before = cell.borrow().as_ref().map(|c| c.already_finalized());
        let Some(before) = before else { return };
        let res = {
            let _g = FrameGuard::api(Frame::ApiOther);
            wd.expected_panics.set(wd.expected_panics.get() + 1);
            let r = catch_unwind(AssertUnwindSafe(|| {
                if let Some(c) = cell.borrow_mut().as_mut() {
                    c.finalize_again();
                }
            }));
            wd.expected_panics.set(wd.expected_panics.get().saturating_sub(1));
            r
        };
        let after = cell.borrow().as_ref().map(|c| c.already_finalized()).unwrap_or(before);
        wd.feature(FT_FINAGAIN, res.is_ok() as u64, before as u64 | (after as u64) << 1);
        oracle::finalize_again_result(wd, id, res.is_ok(), before, after, cx.is_top());
    }
    #[cfg(not(feature = "finalization"))]
    {
        let _ = (reg, cx);
    }
}

// ---------------------------------------------------------------------------------------------------------------
// collections

thread_local! {
    /// the next top-level collect_cycles() is issued from inside a config closure
    static IN_CONFIG: Cell<bool> = const { Cell::new(false) };
}

fn collect_call() {
    #[cfg(feature = "auto-collect")]
    if IN_CONFIG.with(|c| c.get()) {
        // At top level the access succeeds. A request made by a callback while that collection runs finds the
        // configuration borrowed (by our own closure): it is nested in a running collection, where collect_cycles() is a
        // no-op anyway, so not calling it is equivalent.
        let _ = rust_cc::config::config(|_c| collect_cycles());
        return;
    }
    collect_cycles()
}

fn op_collect(cx: &Cx) {
    let wd = w();
    let was = wd.in_collection.get();
    let ev0 = wd.coll_cb_events.get();
    let exec0 = state::executions_count().unwrap_or(0);
    if !was {
        oracle::collection_starting(wd, true);
    }
    let res = {
        let _r = Restore(&wd.in_collection, was);
        let r = api(Frame::ApiCollect, cx, "collect_cycles", collect_call);
        if !was {
            oracle::collection_finished(wd, r.is_some());
        }
        r
    };
    if was {
        // a collection requested from a callback of a running collection must be a no-op
        bump(&wd.stats.nested_noop_collects);
        let exec1 = state::executions_count().unwrap_or(0);
        if res.is_some() && (wd.coll_cb_events.get() != ev0 || exec1 != exec0) {
            wd.err("C12", "nested_collection_ran", format!("nested_collect_not_noop:{}", wd.stack_sig()), format!("collect_cycles() called from a callback of a running collection ran {} callbacks and moved executions_count by {} (stack {})", wd.coll_cb_events.get() - ev0, exec1 - exec0, wd.stack_sig()));
        }
    } else {
        oracle::check_exec_count(wd, "collect_cycles");
        if !cx.is_top() && res.is_some() && !wd.failed() {
            // a collection requested from a callback that runs outside any collection (under a plain drop or a
            // clean()): it is a real collection, and C02 applies to it as to any other. Repeat until quiet, then compare.
            bump(&wd.stats.nested_real_collects);
            if !wd.nested_quiet.get() {
                let _r = Restore(&wd.nested_quiet, false);
                wd.nested_quiet.set(true);
                let mut rounds = 0;
                loop {
                    let before = (wd.fin_events.get(), wd.drop_events.get());
                    op_collect(cx);
                    rounds += 1;
                    if wd.failed() {
                        return;
                    }
                    if before == (wd.fin_events.get(), wd.drop_events.get()) {
                        oracle::after_collect_quiet(wd);
                        break;
                    }
                    if rounds >= 16 {
                        break;
                    }
                }
            }
        }
    }
}

fn op_collect_quiet(cx: &Cx) {
    let wd = w();
    let mut rounds = 0;
    loop {
        let before = (wd.fin_events.get(), wd.drop_events.get());
        op_collect(cx);
        rounds += 1;
        if wd.failed() {
            return;
        }
        let after = (wd.fin_events.get(), wd.drop_events.get());
        if before == after {
            break;
        }
        if rounds >= 64 {
            bump(&wd.stats.cap_hits);
            return; // inconclusive for C02: counted, never a violation
        }
    }
    oracle::after_collect_quiet(wd);
}

// ---------------------------------------------------------------------------------------------------------------
// cleaners

#[cfg(feature = "cleaners")]
fn op_register(own: Own, action: &ActionSpec, dst: u8, cx: &Cx) {
    let wd = w();
    let Some(oid) = own_id(own, cx) else { return };
    if wd.m.borrow().obj(oid).map_or(true, |o| o.actions.len() >= MAX_ACTIONS) {
        return;
    }
    // The program keeps its own handle to the owner while it calls owner.cleaner.register(..): that call can start a
    // collection whose callbacks may overwrite the register the owner was reached through.
    let pin: Cc<Node> = match own {
        Own::R(i) => match clone_src(Src::R(i), cx) {
            Some(c) => c.0,
            None => return,
        },
        Own::G(i) => match clone_src(Src::G(i), cx) {
            Some(c) => c.0,
            None => return,
        },
        Own::Me => return, // a finalizer has no Cc to itself
    };
    wd.m.borrow_mut().pins.push(oid);
    let p: *const Node = &*pin;
    /// If a panic unwinds through, the pin goes away with it: keep the model in step.
    struct PinGuard(Option<Cc<Node>>, u32);
    impl Drop for PinGuard {
        fn drop(&mut self) {
            if self.0.is_some() {
                if let Some(wd) = try_w() {
                    if let Ok(mut m) = wd.m.try_borrow_mut() {
                        if let Some(pos) = m.pins.iter().rposition(|x| *x == self.1) {
                            m.pins.remove(pos);
                        }
                    }
                }
            }
        }
    }
    let mut pin = PinGuard(Some(pin), oid);
    // captures (acquisitions first)
    let cap = action.cap.and_then(|s| clone_src(s, cx));
    let wcap_allowed = action.wcap.filter(|l| match wloc_target(*l, cx) {
        WT::To(id) => wd.m.borrow().weak_holders(id).1 < WEAK_LIMIT,
        _ => true,
    });
    let (wcap, wt) = match wcap_allowed {
        Some(l) => {
            let t = wloc_target(l, cx);
            let wk = {
                let _g = FrameGuard::api(Frame::ApiOther);
                with_weak(l, cx, |x| x.clone())
            };
            match wk {
                Some(wk) => (Some(wk), t),
                None => (None, WT::None),
            }
        }
        None => (None, WT::None),
    };
    let idx;
    let first;
    {
        let mut m = wd.m.borrow_mut();
        let seq = wd.box_seq.get();
        let o = m.obj_mut(oid).unwrap();
        idx = o.actions.len();
        first = o.map_addr == 0;
        o.actions.push(MAction { runs: 0, cap: cap.as_ref().map(|c| c.1), wcap: wt, done: false, cleaned: false, registered_seq: seq });
        m.latch();
    }
    let st = ActionState {
        owner: oid,
        idx,
        epoch: wd.epoch.get(),
        cap: RefCell::new(cap.map(|c| c.0)),
        wcap: RefCell::new(wcap),
        script: action.script.clone(),
    };
    let pre = if first { Some(oracle::pre_new(wd)) } else { None };
    let _t = TruncPending::new();
    if first {
        wd.pending_box.borrow_mut().push(BoxOwner::Map(oid));
        wd.pending_side.borrow_mut().push(BoxOwner::Map(oid));
    }
    let was = wd.in_collection.get();
    let n = unsafe { &*p };
    let res = {
        let _r = Restore(&wd.in_collection, was);
        let r = api(Frame::ApiNew, cx, "Cleaner::register", move || n.cleaner.register(move || run_action(st)));
        if !was && wd.in_collection.get() {
            match &pre {
                Some(pre) => oracle::auto_collection_done(wd, pre, r.is_some()),
                None => oracle::collection_finished(wd, r.is_some()),
            }
        }
        r
    };
    if let Some(pre) = pre {
        oracle::post_new(wd, &pre, res.is_some(), "Cleaner::register");
    }
    // release the pin (a handle like any other)
    {
        let mut m = wd.m.borrow_mut();
        if let Some(pos) = m.pins.iter().rposition(|x| *x == oid) {
            m.pins.remove(pos);
        }
    }
    oracle::lost_holder(wd, oid);
    wd.m.borrow_mut().latch();
    release(pin.0.take(), Some(oid), cx);
    if let Some(cl) = res {
        // registering downgrades the map: it leaves the buffer
        {
            let mut m = wd.m.borrow_mut();
            if let Some(o) = m.obj_mut(oid) {
                o.map_buffered = if wd.in_collection.get() { Tri::Unk } else { Tri::Out };
            }
        }
        let i = dst as usize % NC;
        let old = wd.cr[i].replace(Some(cl));
        wd.m.borrow_mut().cr[i] = Some((oid, idx));
        let _g = FrameGuard::api(Frame::ApiOther);
        drop(old);
    }
}

#[cfg(feature = "cleaners")]
fn run_action(st: ActionState) {
    let Some(wd) = try_w() else { return };
    if wd.epoch.get() != st.epoch {
        bump(&wd.stats.stale_callbacks);
        return;
    }
    let _g = FrameGuard::cb(Cb::Action, st.owner);
    wd.tlog(|| format!("action #{}.{}", st.owner, st.idx));
    oracle::on_action(wd, st.owner, st.idx);
    wd.fault_point(Cb::Action);
    if !(wd.quiesce.get() || wd.failed()) {
        let cx = Cx::Action(&st);
        for a in st.script.iter() {
            exec(a, &cx);
            if wd.failed() {
                break;
            }
        }
    }
    // captures released while the action's frame is still on the stack (ActionState::drop updates the model first)
    drop(st);
}

#[cfg(feature = "cleaners")]
fn op_clean(c: u8, cx: &Cx) {
    let wd = w();
    let i = c as usize % NC;
    let Some((oid, idx)) = wd.m.borrow().cr[i] else { return };
    let Some(cl) = wd.cr[i].take() else { return };
    let pre = oracle::pre_clean(wd, oid, idx);
    wd.cleaning.borrow_mut().push((oid, idx));
    struct PopCleaning;
    impl Drop for PopCleaning {
        fn drop(&mut self) {
            if let Some(wd) = try_w() {
                if let Ok(mut c) = wd.cleaning.try_borrow_mut() {
                    c.pop();
                }
            }
        }
    }
    let pop = PopCleaning;
    let cb0 = wd.cb_total.get();
    let _ = api(Frame::ApiClean, cx, "Cleanable::clean", || cl.clean());
    drop(pop);
    wd.feature(FT_CLEAN, (wd.cb_total.get() - cb0).min(3), 0);
    oracle::post_clean(wd, oid, idx, &pre);
    // put the cleanable back unless the program dropped / replaced it meanwhile
    let still = wd.m.borrow().cr[i] == Some((oid, idx));
    let _g = FrameGuard::api(Frame::ApiOther);
    if still && wd.cr[i].borrow().is_none() {
        *wd.cr[i].borrow_mut() = Some(cl);
    } else {
        drop(cl);
    }
}

// ---------------------------------------------------------------------------------------------------------------
// what a payload Drop impl does

pub fn exec_dact(a: DAct, me: &Node) {
    let wd = w();
    match a {
        DAct::UpgradeW(i) => {
            #[cfg(feature = "weak-ptrs")]
            {
                let i = i as usize % NW;
                let t = wd.m.borrow().obj(me.id).map(|o| o.w[i]).unwrap_or(WT::None);
                // only where the statement demands a refusal for sure: the target's destruction has begun
                let must_fail = match t {
                    WT::To(id) => wd.m.borrow().obj(id).map_or(false, |o| matches!(o.val, Val::Dropped | Val::Unwrapped | Val::Vanished)),
                    WT::Dangling => true,
                    WT::None => false,
                };
                if must_fail {
                    let r = {
                        let _g = FrameGuard::api(Frame::ApiOther);
                        me.w[i].borrow().as_ref().map(|x| x.upgrade())
                    };
                    if let Some(r) = r {
                        bump(&wd.stats.upgrade_sites[3]);
                        match r {
                            Some(c) => {
                                wd.err("C08", "upgrade_some_dead", format!("upgrade_some_dead:site=DROP:{:?}", t), format!("Weak::upgrade returned Some for {:?} from the Drop impl of #{} although its destruction has begun (stack {})", t, me.id, wd.stack_sig()));
                                std::mem::forget(c);
                            }
                            None => bump(&wd.stats.upgrades_none),
                        }
                    }
                }
            }
            #[cfg(not(feature = "weak-ptrs"))]
            {
                let _ = (i, me);
            }
        }
        DAct::Collect => {
            let cx = Cx::Never(&());
            op_collect(&cx);
        }
        DAct::Query => oracle::query(wd, None),
    }
}
