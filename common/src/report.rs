//! The shard report protocol (see lib/driver.py): `VIOL {json}` lines as violations are found and one
//! `REPORT {json}` line at the end.
use crate::json::Json;
use std::collections::{BTreeMap, BTreeSet, HashSet};
use std::io::Write;

/// Upper bound of distinct non-trivial hashes a shard keeps (beyond it, further ones are not counted:
/// the reported number is then a conservative under-count, and `hash_cap_hit` is set).
pub const HASH_CAP: usize = 60_000;

#[derive(Default)]
pub struct Report {
    pub evaluations: u64,
    pub counters: BTreeMap<String, u64>,
    pub sets: BTreeMap<String, BTreeSet<String>>,
    pub samples: Vec<Json>,
    pub inconclusive: Vec<String>,
    hashes: HashSet<u64>,
    pub violations: u64,
    pub max_samples: usize,
    pub max_viol_lines: u64,
}

impl Report {
    pub fn new() -> Report {
        Report { max_samples: 3, max_viol_lines: 40, ..Default::default() }
    }

    pub fn count(&mut self, name: &str, n: u64) {
        if n == 0 {
            self.counters.entry(name.to_string()).or_insert(0);
            return;
        }
        *self.counters.entry(name.to_string()).or_insert(0) += n;
    }

    pub fn max(&mut self, name: &str, v: u64) {
        let e = self.counters.entry(format!("max_{}", name)).or_insert(0);
        if v > *e {
            *e = v;
        }
    }

    pub fn set_add(&mut self, name: &str, item: impl Into<String>) {
        let s = self.sets.entry(name.to_string()).or_default();
        if s.len() < 5000 {
            s.insert(item.into());
        }
    }

    /// Records the canonical hash of a case that is non-trivial by the check's rule.
    pub fn nontrivial(&mut self, hash: u64) {
        if self.hashes.len() < HASH_CAP {
            self.hashes.insert(hash);
        } else {
            self.count("hash_cap_hit", 1);
        }
    }

    pub fn nontrivial_hashes(&self) -> Vec<u64> {
        self.hashes.iter().cloned().collect()
    }

    pub fn nontrivial_count(&self) -> usize {
        self.hashes.len()
    }

    pub fn sample(&mut self, s: impl Into<Json>) {
        if self.samples.len() < self.max_samples {
            self.samples.push(s.into());
        }
    }

    pub fn inconclusive(&mut self, why: impl Into<String>) {
        if self.inconclusive.len() < 20 {
            self.inconclusive.push(why.into());
        }
    }

    /// Prints a VIOL line. `replay` = arguments that make this binary re-run exactly the failing case.
    pub fn viol(&mut self, property: &str, oracle: &str, signature: &str, detail: &str, replay: &[String]) {
        self.violations += 1;
        if self.violations > self.max_viol_lines {
            return;
        }
        let j = Json::obj()
            .set("property", property)
            .set("oracle", oracle)
            .set("signature", signature)
            .set("detail", detail)
            .set("replay", replay.iter().map(|s| Json::from(s.as_str())).collect::<Vec<_>>());
        let out = std::io::stdout();
        let mut l = out.lock();
        let _ = writeln!(l, "VIOL {}", j.to_string());
        let _ = l.flush();
    }

    pub fn emit(&self) {
        let mut counters = Json::obj();
        for (k, v) in &self.counters {
            counters.put(k, *v);
        }
        counters.put("violations_reported", self.violations);
        let mut sets = Json::obj();
        for (k, v) in &self.sets {
            sets.put(k, v.iter().map(|s| Json::from(s.as_str())).collect::<Vec<_>>());
        }
        let j = Json::obj()
            .set("evaluations", self.evaluations)
            .set("counters", counters)
            .set("sets", sets)
            .set("samples", Json::Arr(self.samples.clone()))
            .set("inconclusive", self.inconclusive.iter().map(|s| Json::from(s.as_str())).collect::<Vec<_>>())
            .set("nontrivial_hashes", self.hashes.iter().map(|h| Json::UInt(*h)).collect::<Vec<_>>());
        let out = std::io::stdout();
        let mut l = out.lock();
        let _ = writeln!(l, "REPORT {}", j.to_string());
        let _ = l.flush();
    }
}

/// Tiny argv helper: `--key value` and `--flag`.
pub struct Args {
    v: Vec<String>,
}

impl Args {
    pub fn from_env() -> Args {
        Args { v: std::env::args().skip(1).collect() }
    }
    pub fn from_vec(v: Vec<String>) -> Args {
        Args { v }
    }
    pub fn flag(&self, name: &str) -> bool {
        self.v.iter().any(|a| a == name)
    }
    pub fn get(&self, name: &str) -> Option<&str> {
        self.v.iter().position(|a| a == name).and_then(|i| self.v.get(i + 1)).map(|s| s.as_str())
    }
    pub fn u64(&self, name: &str, default: u64) -> u64 {
        self.get(name).and_then(|s| s.parse().ok()).unwrap_or(default)
    }
    pub fn usize(&self, name: &str, default: usize) -> usize {
        self.get(name).and_then(|s| s.parse().ok()).unwrap_or(default)
    }
    pub fn str(&self, name: &str, default: &str) -> String {
        self.get(name).unwrap_or(default).to_string()
    }
    pub fn all(&self) -> &[String] {
        &self.v
    }
    pub fn positional(&self, i: usize) -> Option<&str> {
        self.v.get(i).map(|s| s.as_str())
    }
}
