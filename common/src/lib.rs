//! Support code shared by the monitoring harnesses of /verif: PRNG, JSON output, the shard report
//! protocol understood by lib/driver.py, and the instrumented global allocator.
pub mod alloc;
pub mod json;
pub mod report;
pub mod rng;

pub use json::Json;
pub use report::Report;
pub use rng::Rng;
