//! Instrumented global allocator: ground truth for memory events (DESIGN.md section 2.2).
//!
//! Only blocks allocated while the calling thread's tag is `TAG_CRATE` are tracked (the harness sets that
//! tag immediately before calling into rust-cc and resets it to `TAG_HARNESS` on entry to every user
//! callback). Everything in here is allocation-free and re-entrancy safe: fixed tables in static
//! memory protected by a spin lock, thread-locals that are const-initialised and have no destructor.
//!
//! Modes:
//!  * `Off`         nothing is tracked (default; programs that do not opt in pay one atomic load)
//!  * `Track`       pass-through: blocks are really freed, so Miri / ASan / memcheck see the frees
//!  * `Quarantine`  freed tracked blocks are filled with 0xDD and parked until `drain_quarantine()`;
//!                  a second free of a parked block and writes into it are detected
use std::alloc::{GlobalAlloc, Layout, System};
use std::cell::Cell;
use std::sync::atomic::{AtomicBool, AtomicU32, AtomicU64, AtomicU8, Ordering};

pub const TAG_HARNESS: u8 = 0;
pub const TAG_CRATE: u8 = 1;

pub const MODE_OFF: u8 = 0;
pub const MODE_TRACK: u8 = 1;
pub const MODE_QUARANTINE: u8 = 2;

pub const POISON: u8 = 0xDD;

#[cfg(miri)]
const CAP: usize = 1 << 11;
#[cfg(not(miri))]
const CAP: usize = 1 << 13;
const MAX_ERRORS: usize = 32;
const MAX_PARKED: usize = 2048;

const ST_EMPTY: u8 = 0;
const ST_LIVE: u8 = 1;
const ST_PARKED: u8 = 2;

#[derive(Clone, Copy)]
struct Entry {
    ptr: usize,
    size: usize,
    seq: u64,
    align: u32,
    thread: u16,
    state: u8,
}

const EMPTY: Entry = Entry { ptr: 0, size: 0, seq: 0, align: 0, thread: 0, state: ST_EMPTY };

#[derive(Clone, Copy, Debug, PartialEq, Eq)]
pub enum ErrKind {
    /// dealloc of a block that is parked in the quarantine (already freed once)
    DoubleFree,
    /// dealloc with a size / alignment different from the allocation's
    LayoutMismatch,
    /// block allocated (tracked) on one thread, freed on another
    CrossThreadFree,
    /// zero-sized allocation request made by the crate
    ZeroSize,
    /// allocator returned a pointer not aligned as requested (cannot happen with System; kept as self-check)
    Misaligned,
    /// a parked (freed) block was written to
    WriteAfterFree,
    /// the fixed table overflowed: tracking is incomplete (inconclusive, not a violation)
    TableFull,
}

#[derive(Clone, Copy, Debug)]
pub struct AllocError {
    pub kind: ErrKind,
    pub ptr: usize,
    pub size: usize,
    pub align: usize,
    /// for LayoutMismatch: the layout recorded at allocation time; for WriteAfterFree: offset of the first dirty byte
    pub other_size: usize,
    pub other_align: usize,
    pub seq: u64,
}

const NO_ERR: AllocError = AllocError { kind: ErrKind::TableFull, ptr: 0, size: 0, align: 0, other_size: 0, other_align: 0, seq: 0 };

struct Table {
    entries: [Entry; CAP],
    live: usize,
    live_bytes: usize,
    parked: usize,
    parked_ptrs: [usize; MAX_PARKED],
    errors: [AllocError; MAX_ERRORS],
    n_errors: usize,
}

struct Shared(std::cell::UnsafeCell<Table>);
unsafe impl Sync for Shared {}

static TABLE: Shared = Shared(std::cell::UnsafeCell::new(Table {
    entries: [EMPTY; CAP],
    live: 0,
    live_bytes: 0,
    parked: 0,
    parked_ptrs: [0; MAX_PARKED],
    errors: [NO_ERR; MAX_ERRORS],
    n_errors: 0,
}));
static LOCK: AtomicBool = AtomicBool::new(false);
static MODE: AtomicU8 = AtomicU8::new(MODE_OFF);
static SEQ: AtomicU64 = AtomicU64::new(0);
static NEXT_THREAD: AtomicU32 = AtomicU32::new(1);
static TRACKED_ALLOCS: AtomicU64 = AtomicU64::new(0);
static TRACKED_FREES: AtomicU64 = AtomicU64::new(0);

thread_local! {
    static TAG: Cell<u8> = const { Cell::new(TAG_HARNESS) };
    static THREAD_ID: Cell<u16> = const { Cell::new(0) };
    /// last tracked event of this thread: (is_alloc, ptr, size, align, seq)
    static LAST: Cell<(bool, usize, usize, usize, u64)> = const { Cell::new((false, 0, 0, 0, 0)) };
}

struct Guard;
fn lock() -> Guard {
    while LOCK.compare_exchange_weak(false, true, Ordering::Acquire, Ordering::Relaxed).is_err() {
        std::hint::spin_loop();
    }
    Guard
}
impl Drop for Guard {
    fn drop(&mut self) {
        LOCK.store(false, Ordering::Release);
    }
}

#[allow(clippy::mut_from_ref)]
fn table(_g: &Guard) -> &mut Table {
    unsafe { &mut *TABLE.0.get() }
}

#[inline]
fn slot_of(ptr: usize) -> usize {
    let mut z = (ptr as u64) >> 3;
    z = (z ^ (z >> 29)).wrapping_mul(0xBF58_476D_1CE4_E5B9);
    (z ^ (z >> 32)) as usize & (CAP - 1)
}

impl Table {
    fn find(&self, ptr: usize) -> Option<usize> {
        let mut i = slot_of(ptr);
        loop {
            let e = &self.entries[i];
            if e.state == ST_EMPTY {
                return None;
            }
            if e.ptr == ptr {
                return Some(i);
            }
            i = (i + 1) & (CAP - 1);
        }
    }

    fn insert(&mut self, e: Entry) -> bool {
        if self.live + self.parked >= CAP / 2 {
            return false;
        }
        let mut i = slot_of(e.ptr);
        while self.entries[i].state != ST_EMPTY {
            i = (i + 1) & (CAP - 1);
        }
        self.entries[i] = e;
        true
    }

    /// Backward-shift deletion for linear probing.
    fn remove_at(&mut self, mut i: usize) {
        let mask = CAP - 1;
        let mut j = i;
        loop {
            j = (j + 1) & mask;
            if self.entries[j].state == ST_EMPTY {
                break;
            }
            let k = slot_of(self.entries[j].ptr);
            // can entry j stay where it is? yes iff k is cyclically in (i, j]
            let stay = if i <= j { i < k && k <= j } else { i < k || k <= j };
            if !stay {
                self.entries[i] = self.entries[j];
                i = j;
            }
        }
        self.entries[i] = EMPTY;
    }

    fn error(&mut self, e: AllocError) {
        if self.n_errors < MAX_ERRORS {
            self.errors[self.n_errors] = e;
            self.n_errors += 1;
        }
    }
}

fn thread_id() -> u16 {
    THREAD_ID
        .try_with(|t| {
            if t.get() == 0 {
                t.set((NEXT_THREAD.fetch_add(1, Ordering::Relaxed) & 0xffff) as u16);
            }
            t.get()
        })
        .unwrap_or(0)
}

pub struct MonAlloc;

unsafe impl GlobalAlloc for MonAlloc {
    unsafe fn alloc(&self, layout: Layout) -> *mut u8 {
        let p = System.alloc(layout);
        if MODE.load(Ordering::Relaxed) != MODE_OFF && !p.is_null() {
            let tag = TAG.try_with(|t| t.get()).unwrap_or(TAG_HARNESS);
            if tag == TAG_CRATE {
                track_alloc(p as usize, layout);
            }
        }
        p
    }

    unsafe fn alloc_zeroed(&self, layout: Layout) -> *mut u8 {
        let p = System.alloc_zeroed(layout);
        if MODE.load(Ordering::Relaxed) != MODE_OFF && !p.is_null() {
            let tag = TAG.try_with(|t| t.get()).unwrap_or(TAG_HARNESS);
            if tag == TAG_CRATE {
                track_alloc(p as usize, layout);
            }
        }
        p
    }

    unsafe fn dealloc(&self, ptr: *mut u8, layout: Layout) {
        let mode = MODE.load(Ordering::Relaxed);
        if mode == MODE_OFF {
            System.dealloc(ptr, layout);
            return;
        }
        if track_dealloc(ptr as usize, layout, mode) {
            System.dealloc(ptr, layout);
        }
    }
    // realloc: the default implementation (alloc + copy + dealloc through self) is what we want
}

fn track_alloc(p: usize, layout: Layout) {
    let seq = SEQ.fetch_add(1, Ordering::Relaxed) + 1;
    let tid = thread_id();
    TRACKED_ALLOCS.fetch_add(1, Ordering::Relaxed);
    let g = lock();
    let t = table(&g);
    if layout.size() == 0 {
        t.error(AllocError { kind: ErrKind::ZeroSize, ptr: p, size: 0, align: layout.align(), other_size: 0, other_align: 0, seq });
    }
    if p % layout.align() != 0 {
        t.error(AllocError { kind: ErrKind::Misaligned, ptr: p, size: layout.size(), align: layout.align(), other_size: 0, other_align: 0, seq });
    }
    let ok = t.insert(Entry { ptr: p, size: layout.size(), seq, align: layout.align() as u32, thread: tid, state: ST_LIVE });
    if ok {
        t.live += 1;
        t.live_bytes += layout.size();
    } else {
        t.error(AllocError { kind: ErrKind::TableFull, ptr: p, size: layout.size(), align: layout.align(), other_size: 0, other_align: 0, seq });
    }
    drop(g);
    let _ = LAST.try_with(|l| l.set((true, p, layout.size(), layout.align(), seq)));
}

/// Returns true if the block must really be released now.
fn track_dealloc(p: usize, layout: Layout, mode: u8) -> bool {
    let g = lock();
    let t = table(&g);
    let Some(i) = t.find(p) else {
        return true; // not a tracked block
    };
    let seq = SEQ.fetch_add(1, Ordering::Relaxed) + 1;
    let e = t.entries[i];
    if e.state == ST_PARKED {
        t.error(AllocError { kind: ErrKind::DoubleFree, ptr: p, size: layout.size(), align: layout.align(), other_size: e.size, other_align: e.align as usize, seq });
        return false; // it is parked: never give it to the system twice
    }
    TRACKED_FREES.fetch_add(1, Ordering::Relaxed);
    let mut release = true;
    if e.size != layout.size() || e.align as usize != layout.align() {
        t.error(AllocError { kind: ErrKind::LayoutMismatch, ptr: p, size: layout.size(), align: layout.align(), other_size: e.size, other_align: e.align as usize, seq });
        // releasing with a wrong layout is UB for the system allocator: leak it instead
        release = false;
    }
    let tid = thread_id();
    if e.thread != tid && tid != 0 && e.thread != 0 {
        t.error(AllocError { kind: ErrKind::CrossThreadFree, ptr: p, size: e.size, align: e.align as usize, other_size: e.thread as usize, other_align: tid as usize, seq });
    }
    t.live -= 1;
    t.live_bytes -= e.size;
    if mode == MODE_QUARANTINE && release && t.parked < MAX_PARKED {
        unsafe { std::ptr::write_bytes(p as *mut u8, POISON, e.size) };
        t.entries[i].state = ST_PARKED;
        t.entries[i].seq = seq;
        t.parked_ptrs[t.parked] = p;
        t.parked += 1;
        release = false;
    } else {
        t.remove_at(i);
    }
    drop(g);
    let _ = LAST.try_with(|l| l.set((false, p, layout.size(), layout.align(), seq)));
    release
}

// ------------------------------------------------------------------------------------------------
// control / query API (called by the harness, never by the allocator paths)

pub fn set_mode(mode: u8) {
    MODE.store(mode, Ordering::SeqCst);
}

pub fn mode() -> u8 {
    MODE.load(Ordering::Relaxed)
}

/// Sets the tag of the current thread, returning the previous one.
#[inline]
pub fn set_tag(tag: u8) -> u8 {
    TAG.try_with(|t| t.replace(tag)).unwrap_or(TAG_HARNESS)
}

#[inline]
pub fn tag() -> u8 {
    TAG.try_with(|t| t.get()).unwrap_or(TAG_HARNESS)
}

/// RAII tag switch.
pub struct TagGuard(u8);
impl TagGuard {
    #[inline]
    pub fn new(tag: u8) -> TagGuard {
        TagGuard(set_tag(tag))
    }
}
impl Drop for TagGuard {
    #[inline]
    fn drop(&mut self) {
        set_tag(self.0);
    }
}

pub fn current_thread_id() -> u16 {
    thread_id()
}

/// Last tracked allocator event of this thread: (is_alloc, ptr, size, align, seq).
pub fn last_event() -> (bool, usize, usize, usize, u64) {
    LAST.try_with(|l| l.get()).unwrap_or((false, 0, 0, 0, 0))
}

#[derive(Clone, Copy, Debug)]
pub struct BlockInfo {
    pub ptr: usize,
    pub size: usize,
    pub align: usize,
    pub thread: u16,
    pub seq: u64,
    pub parked: bool,
}

pub fn lookup(ptr: usize) -> Option<BlockInfo> {
    let g = lock();
    let t = table(&g);
    t.find(ptr).map(|i| {
        let e = t.entries[i];
        BlockInfo { ptr: e.ptr, size: e.size, align: e.align as usize, thread: e.thread, seq: e.seq, parked: e.state == ST_PARKED }
    })
}

/// (number, bytes) of live tracked blocks, all threads.
pub fn live_totals() -> (usize, usize) {
    let g = lock();
    let t = table(&g);
    (t.live, t.live_bytes)
}

pub fn tracked_event_counts() -> (u64, u64) {
    (TRACKED_ALLOCS.load(Ordering::Relaxed), TRACKED_FREES.load(Ordering::Relaxed))
}

/// Copies the live tracked blocks of `thread` (0 = all threads) into `out`; returns how many exist.
pub fn live_blocks(thread: u16, out: &mut Vec<BlockInfo>) -> usize {
    // collect into a fixed buffer under the lock, push afterwards (pushing may allocate)
    let mut n = 0usize;
    let mut buf = [BlockInfo { ptr: 0, size: 0, align: 0, thread: 0, seq: 0, parked: false }; 256];
    {
        let g = lock();
        let t = table(&g);
        if t.live > 0 {
            for e in t.entries.iter() {
                if e.state == ST_LIVE && (thread == 0 || e.thread == thread) {
                    if n < buf.len() {
                        buf[n] = BlockInfo { ptr: e.ptr, size: e.size, align: e.align as usize, thread: e.thread, seq: e.seq, parked: false };
                    }
                    n += 1;
                }
            }
        }
    }
    out.extend_from_slice(&buf[..n.min(buf.len())]);
    n
}

pub fn take_errors() -> Vec<AllocError> {
    let mut buf = [NO_ERR; MAX_ERRORS];
    let n;
    {
        let g = lock();
        let t = table(&g);
        n = t.n_errors;
        buf[..n].copy_from_slice(&t.errors[..n]);
        t.n_errors = 0;
    }
    buf[..n].to_vec()
}

pub fn has_errors() -> bool {
    let g = lock();
    table(&g).n_errors > 0
}

/// Scans every parked block for writes after free, then really releases it.
/// Returns (blocks released, dirty blocks found); dirty ones are also recorded as WriteAfterFree errors.
/// Only meaningful when a single thread uses the quarantine (the multi-thread workloads run in Track mode).
pub fn drain_quarantine() -> (usize, usize) {
    let mut released = 0usize;
    let mut dirty = 0usize;
    loop {
        let mut batch = [EMPTY; 64];
        let mut n = 0;
        {
            let g = lock();
            let t = table(&g);
            while t.parked > 0 && n < batch.len() {
                let p = t.parked_ptrs[t.parked - 1];
                t.parked -= 1;
                if let Some(i) = t.find(p) {
                    if t.entries[i].state == ST_PARKED {
                        batch[n] = t.entries[i];
                        n += 1;
                        t.remove_at(i);
                    }
                }
            }
        }
        if n == 0 {
            break;
        }
        for e in &batch[..n] {
            let bytes = unsafe { std::slice::from_raw_parts(e.ptr as *const u8, e.size) };
            if let Some(off) = bytes.iter().position(|b| *b != POISON) {
                dirty += 1;
                let g = lock();
                table(&g).error(AllocError { kind: ErrKind::WriteAfterFree, ptr: e.ptr, size: e.size, align: e.align as usize, other_size: off, other_align: 0, seq: e.seq });
            }
            unsafe { System.dealloc(e.ptr as *mut u8, Layout::from_size_align_unchecked(e.size, e.align as usize)) };
            released += 1;
        }
    }
    (released, dirty)
}

/// Forgets every tracked block of `thread` (0 = all) without releasing live ones (used between
/// histories after a violation or a leak was already reported, so that it is not reported again).
pub fn forget_live(thread: u16) -> usize {
    let g = lock();
    let t = table(&g);
    let mut n = 0;
    let mut i = 0;
    while i < CAP {
        let e = t.entries[i];
        if e.state == ST_LIVE && (thread == 0 || e.thread == thread) {
            t.live -= 1;
            t.live_bytes -= e.size;
            t.remove_at(i);
            n += 1;
            continue;
        }
        i += 1;
    }
    n
}
