//! SplitMix64 seeding + xoshiro256** generator (deterministic, no dependencies).

#[derive(Clone, Debug)]
pub struct Rng {
    s: [u64; 4],
}

pub fn splitmix64(state: &mut u64) -> u64 {
    *state = state.wrapping_add(0x9E37_79B9_7F4A_7C15);
    let mut z = *state;
    z = (z ^ (z >> 30)).wrapping_mul(0xBF58_476D_1CE4_E5B9);
    z = (z ^ (z >> 27)).wrapping_mul(0x94D0_49BB_1331_11EB);
    z ^ (z >> 31)
}

impl Rng {
    pub fn new(seed: u64) -> Rng {
        let mut sm = seed;
        let s = [splitmix64(&mut sm), splitmix64(&mut sm), splitmix64(&mut sm), splitmix64(&mut sm)];
        Rng { s }
    }

    /// Derives an independent generator for (seed, stream).
    pub fn derive(seed: u64, stream: u64) -> Rng {
        let mut sm = seed ^ stream.wrapping_mul(0xD6E8_FEB8_6659_FD93);
        let a = splitmix64(&mut sm);
        Rng::new(a ^ stream.rotate_left(32))
    }

    pub fn next(&mut self) -> u64 {
        let result = self.s[1].wrapping_mul(5).rotate_left(7).wrapping_mul(9);
        let t = self.s[1] << 17;
        self.s[2] ^= self.s[0];
        self.s[3] ^= self.s[1];
        self.s[1] ^= self.s[2];
        self.s[0] ^= self.s[3];
        self.s[2] ^= t;
        self.s[3] = self.s[3].rotate_left(45);
        result
    }

    /// Uniform in 0..n (n > 0).
    pub fn below(&mut self, n: u64) -> u64 {
        debug_assert!(n > 0);
        // multiply-shift; bias is irrelevant for workload generation
        ((self.next() as u128 * n as u128) >> 64) as u64
    }

    pub fn idx(&mut self, n: usize) -> usize {
        self.below(n as u64) as usize
    }

    pub fn range(&mut self, lo: u64, hi_incl: u64) -> u64 {
        lo + self.below(hi_incl - lo + 1)
    }

    /// True with probability num/den.
    pub fn chance(&mut self, num: u64, den: u64) -> bool {
        self.below(den) < num
    }

    pub fn pick<'a, T>(&mut self, xs: &'a [T]) -> &'a T {
        &xs[self.idx(xs.len())]
    }

    /// Picks an index according to integer weights.
    pub fn weighted(&mut self, weights: &[u32]) -> usize {
        let total: u64 = weights.iter().map(|w| *w as u64).sum();
        let mut x = self.below(total.max(1));
        for (i, w) in weights.iter().enumerate() {
            if x < *w as u64 {
                return i;
            }
            x -= *w as u64;
        }
        weights.len() - 1
    }

    pub fn shuffle<T>(&mut self, xs: &mut [T]) {
        for i in (1..xs.len()).rev() {
            let j = self.idx(i + 1);
            xs.swap(i, j);
        }
    }
}

/// FNV-1a, used for canonical hashes of histories and abstract states.
#[derive(Clone, Copy)]
pub struct Fnv(pub u64);

impl Default for Fnv {
    fn default() -> Self {
        Fnv(0xcbf2_9ce4_8422_2325)
    }
}

impl Fnv {
    pub fn new() -> Fnv {
        Fnv::default()
    }
    pub fn byte(&mut self, b: u8) {
        self.0 ^= b as u64;
        self.0 = self.0.wrapping_mul(0x0000_0100_0000_01B3);
    }
    pub fn bytes(&mut self, bs: &[u8]) {
        for b in bs {
            self.byte(*b);
        }
    }
    pub fn u64(&mut self, x: u64) {
        self.bytes(&x.to_le_bytes());
    }
    pub fn str(&mut self, s: &str) {
        self.bytes(s.as_bytes());
        self.byte(0xff);
    }
    pub fn finish(&self) -> u64 {
        // final avalanche
        let mut z = self.0;
        z = (z ^ (z >> 30)).wrapping_mul(0xBF58_476D_1CE4_E5B9);
        z = (z ^ (z >> 27)).wrapping_mul(0x94D0_49BB_1331_11EB);
        z ^ (z >> 31)
    }
}
