//! Minimal JSON value + serializer (output only).
use std::fmt::Write;

#[derive(Clone, Debug)]
pub enum Json {
    Null,
    Bool(bool),
    Int(i64),
    UInt(u64),
    Float(f64),
    Str(String),
    Arr(Vec<Json>),
    Obj(Vec<(String, Json)>),
}

impl Json {
    pub fn obj() -> Json {
        Json::Obj(Vec::new())
    }
    pub fn set(mut self, k: &str, v: impl Into<Json>) -> Json {
        if let Json::Obj(ref mut o) = self {
            o.push((k.to_string(), v.into()));
        }
        self
    }
    pub fn put(&mut self, k: &str, v: impl Into<Json>) {
        if let Json::Obj(ref mut o) = self {
            o.push((k.to_string(), v.into()));
        }
    }
    pub fn to_string(&self) -> String {
        let mut s = String::new();
        self.write(&mut s);
        s
    }
    fn write(&self, s: &mut String) {
        match self {
            Json::Null => s.push_str("null"),
            Json::Bool(b) => s.push_str(if *b { "true" } else { "false" }),
            Json::Int(i) => {
                let _ = write!(s, "{}", i);
            }
            Json::UInt(u) => {
                let _ = write!(s, "{}", u);
            }
            Json::Float(f) => {
                if f.is_finite() {
                    let _ = write!(s, "{}", f);
                } else {
                    let _ = write!(s, "\"{}\"", f);
                }
            }
            Json::Str(x) => escape(x, s),
            Json::Arr(a) => {
                s.push('[');
                for (i, x) in a.iter().enumerate() {
                    if i > 0 {
                        s.push(',');
                    }
                    x.write(s);
                }
                s.push(']');
            }
            Json::Obj(o) => {
                s.push('{');
                for (i, (k, v)) in o.iter().enumerate() {
                    if i > 0 {
                        s.push(',');
                    }
                    escape(k, s);
                    s.push(':');
                    v.write(s);
                }
                s.push('}');
            }
        }
    }
}

fn escape(x: &str, s: &mut String) {
    s.push('"');
    for c in x.chars() {
        match c {
            '"' => s.push_str("\\\""),
            '\\' => s.push_str("\\\\"),
            '\n' => s.push_str("\\n"),
            '\r' => s.push_str("\\r"),
            '\t' => s.push_str("\\t"),
            c if (c as u32) < 0x20 => {
                let _ = write!(s, "\\u{:04x}", c as u32);
            }
            c => s.push(c),
        }
    }
    s.push('"');
}

impl From<&str> for Json {
    fn from(x: &str) -> Json {
        Json::Str(x.to_string())
    }
}
impl From<String> for Json {
    fn from(x: String) -> Json {
        Json::Str(x)
    }
}
impl From<bool> for Json {
    fn from(x: bool) -> Json {
        Json::Bool(x)
    }
}
impl From<i64> for Json {
    fn from(x: i64) -> Json {
        Json::Int(x)
    }
}
impl From<i32> for Json {
    fn from(x: i32) -> Json {
        Json::Int(x as i64)
    }
}
impl From<u64> for Json {
    fn from(x: u64) -> Json {
        Json::UInt(x)
    }
}
impl From<u32> for Json {
    fn from(x: u32) -> Json {
        Json::UInt(x as u64)
    }
}
impl From<usize> for Json {
    fn from(x: usize) -> Json {
        Json::UInt(x as u64)
    }
}
impl From<f64> for Json {
    fn from(x: f64) -> Json {
        Json::Float(x)
    }
}
impl<T: Into<Json>> From<Vec<T>> for Json {
    fn from(x: Vec<T>) -> Json {
        Json::Arr(x.into_iter().map(Into::into).collect())
    }
}
