// Monitors of the C18 check (template: copied by /verif/p_derive/gen.py into the generated package as src/lib.rs).
//
// Nothing in this file uses the derive macros: every impl here is written by hand, so that a broken derive can
// only break the generated binaries, never the monitors.
#![allow(dead_code)]

pub use rust_cc::{collect_cycles, Cc, Context, Finalize, Trace};
pub use std::any::Any;
pub use std::cell::{Cell, RefCell};
pub use std::rc::Rc;

use vcommon::report::Args;
use vcommon::{Json, Report};

pub const MAXLEAF: usize = __MAXLEAF__;
/// Shapes with an index below this belong to the enumerated core, the others are drawn from the seed.
pub const NCORE: u32 = __NCORE__;

/// Hit tables, indexed by leaf id. Thread-local, const-initialised, no destructor.
pub struct Tables {
    pub hits: [Cell<u32>; MAXLEAF],
    pub fins: [Cell<u32>; MAXLEAF],
    pub drops: [Cell<u32>; MAXLEAF],
    pub holder_calls: Cell<u32>,
    pub holder_fins: Cell<u32>,
    pub oob: Cell<u32>,
}

impl Tables {
    const fn new() -> Tables {
        Tables {
            hits: [const { Cell::new(0) }; MAXLEAF],
            fins: [const { Cell::new(0) }; MAXLEAF],
            drops: [const { Cell::new(0) }; MAXLEAF],
            holder_calls: Cell::new(0),
            holder_fins: Cell::new(0),
            oob: Cell::new(0),
        }
    }
}

thread_local! {
    pub static TABLES: Tables = const { Tables::new() };
}

fn bump(which: u8, id: u32) {
    // never panics (it runs inside callbacks invoked by the collector)
    let _ = TABLES.try_with(|t| {
        let arr = match which {
            0 => &t.hits,
            1 => &t.fins,
            _ => &t.drops,
        };
        match arr.get(id as usize) {
            Some(c) => c.set(c.get().saturating_add(1)),
            None => t.oob.set(t.oob.get().saturating_add(1)),
        }
    });
}

fn reset_tables() {
    TABLES.with(|t| {
        for i in 0..MAXLEAF {
            t.hits[i].set(0);
            t.fins[i].set(0);
            t.drops[i].set(0);
        }
        t.holder_calls.set(0);
        t.holder_fins.set(0);
        t.oob.set(0);
    });
}

fn snapshot(which: u8, n: usize) -> Vec<u32> {
    TABLES.with(|t| {
        let arr = match which {
            0 => &t.hits,
            1 => &t.fins,
            _ => &t.drops,
        };
        arr[..n].iter().map(|c| c.get()).collect()
    })
}

/// First id >= n whose trace / finalize counter is not zero (a leaf that does not belong to the instance).
fn stray(n: usize) -> Option<usize> {
    TABLES.with(|t| (n..MAXLEAF).find(|&i| t.hits[i].get() != 0 || t.fins[i].get() != 0))
}

/// Probe leaf: manual Trace counting its invocations, manual Finalize counting, Drop counting.
pub struct Leaf {
    pub id: u32,
}

impl Leaf {
    pub fn new(id: u32) -> Leaf {
        Leaf { id }
    }
}

unsafe impl Trace for Leaf {
    fn trace(&self, _: &mut Context<'_>) {
        bump(0, self.id);
    }
}

impl Finalize for Leaf {
    fn finalize(&self) {
        bump(1, self.id);
    }
}

impl Drop for Leaf {
    fn drop(&mut self) {
        bump(2, self.id);
    }
}

/// What generated `Cc<..>` fields point to: owns one leaf, forwards trace to it, empty finalizer.
pub struct Inner {
    pub leaf: Leaf,
}

impl Inner {
    pub fn new(id: u32) -> Inner {
        Inner { leaf: Leaf::new(id) }
    }
}

unsafe impl Trace for Inner {
    fn trace(&self, ctx: &mut Context<'_>) {
        self.leaf.trace(ctx);
    }
}

impl Finalize for Inner {
    fn finalize(&self) {
        self.leaf.finalize();
    }
}

/// A type that implements neither Trace nor Finalize.
pub struct NoTrace(pub u32);

/// Wraps the value under test: counts its own trace invocations (R) and forwards to `T::trace`; counts its own
/// finalizations and forwards to `T::finalize` (the derived, supposedly empty, finalizer).
pub struct Holder<T: Trace + 'static> {
    pub back: RefCell<Option<Cc<Holder<T>>>>,
    pub inner: T,
}

unsafe impl<T: Trace + 'static> Trace for Holder<T> {
    fn trace(&self, ctx: &mut Context<'_>) {
        let _ = TABLES.try_with(|t| t.holder_calls.set(t.holder_calls.get().saturating_add(1)));
        self.back.trace(ctx);
        self.inner.trace(ctx);
    }
}

impl<T: Trace + 'static> Finalize for Holder<T> {
    fn finalize(&self) {
        let _ = TABLES.try_with(|t| t.holder_fins.set(t.holder_fins.get().saturating_add(1)));
        self.inner.finalize();
    }
}

/// One (type, variant) instance, described by the generator.
pub struct Case {
    pub shape: u32,
    pub kind: &'static str,
    pub variant: &'static str,
    pub nfields: u32,
    pub mask: &'static str,
    pub def: &'static str,
    /// per leaf id: (class, field index, behind a Cc). class 0 = never traced, 1 = traced exactly once per
    /// trace call of the holder, 2 = reached through a traced `Cc` field (at least once), 3 = behind an ignored `Cc`
    /// field: never traced while the owner is alive (after the owner's destruction the collector may trace the
    /// target on its own account, since dropping the field puts it into the buffer of possible cycle roots).
    pub expect: &'static [(u8, i16, bool)],
    pub nontrivial: bool,
    pub hash: u64,
}

pub struct Run {
    pub rep: Report,
    only: Option<u32>,
    limit: u64,
    stride: u64,
    ordinal: u64,
    instances: u64,
    seed: String,
    label: String,
    sampled: [bool; 4],
}

impl Run {
    /// None = `--noop`.
    pub fn from_args(label: &str) -> Option<Run> {
        let a = Args::from_env();
        if a.flag("--noop") {
            return None;
        }
        let mut rep = Report::new();
        rep.max_samples = 4;
        Some(Run {
            rep,
            only: a.get("--only-shape").and_then(|s| s.parse().ok()),
            limit: a.u64("--limit", u64::MAX),
            stride: a.u64("--stride", 1).max(1),
            ordinal: 0,
            instances: 0,
            seed: a.str("--seed", "0"),
            label: label.to_string(),
            sampled: [false; 4],
        })
    }

    pub fn want(&mut self, idx: u32) -> bool {
        if let Some(o) = self.only {
            if o != idx {
                return false;
            }
        }
        let ord = self.ordinal;
        self.ordinal += 1;
        if ord % self.stride != 0 || self.instances >= self.limit {
            return false;
        }
        self.rep.count("shapes", 1);
        true
    }

    fn replay(&self, case: &Case) -> Vec<String> {
        vec!["--only-shape".to_string(), case.shape.to_string(), "--seed".to_string(), self.seed.clone()]
    }

    pub fn finish(self) {
        self.rep.emit();
    }
}

fn vec_json(v: &[u32]) -> Json {
    Json::Arr(v.iter().map(|x| Json::UInt(*x as u64)).collect())
}

fn expect_text(case: &Case) -> String {
    case.expect
        .iter()
        .map(|e| match e.0 {
            0 => "0",
            1 => "R",
            2 => ">=1",
            _ => "0 while owner alive",
        })
        .collect::<Vec<_>>()
        .join(",")
}

/// Compares the hit table with the expectation. Returns the first mismatch as (leaf id, text).
fn compare(case: &Case, hits: &[u32], r: u32, live: bool) -> Option<(usize, String)> {
    for (id, e) in case.expect.iter().enumerate() {
        let h = hits[id];
        let ok = match e.0 {
            0 => h == 0,
            1 => h == r,
            2 => h >= 1,
            _ => !live || h == 0,
        };
        if !ok {
            let want = match e.0 {
                0 => "0 (ignored position)".to_string(),
                1 => format!("{} (= trace calls of the holder)", r),
                2 => ">= 1 (behind a traced Cc field)".to_string(),
                _ => "0 (behind a Cc in an ignored position, owner alive)".to_string(),
            };
            return Some((id, format!("leaf {} of field {}: {} trace hits, expected {}", id, e.1, h, want)));
        }
    }
    None
}

fn sig(oracle: &str, case: &Case, field: i32) -> String {
    format!("C18:{}:{}:fields={}:mask={}:field={}", oracle, case.kind, case.nfields, case.mask, field)
}

/// The run-time oracle for a type that derives Trace (and Finalize).
pub fn run_traced<T: Trace + 'static>(run: &mut Run, case: &'static Case, value: T, ext: Vec<Box<dyn Any>>) {
    if run.instances >= run.limit {
        drop(value);
        drop(ext);
        return;
    }
    run.instances += 1;
    run.rep.evaluations += 1;
    run.rep.count("instances", 1);
    if case.nontrivial {
        run.rep.nontrivial(case.hash);
        run.rep.count("nontrivial_instances", 1);
    }
    let n = case.expect.len();
    let replay = run.replay(case);
    let mut violated = false;
    run.rep.set_add("kinds", case.kind);
    run.rep.set_add("field_counts", format!("{:02}", case.nfields));
    reset_tables();

    // (1) derive(Finalize): the finalizer is empty, it must not forward to any field.
    Finalize::finalize(&value);
    let fins = snapshot(1, n);
    if let Some(id) = fins.iter().position(|&c| c != 0) {
        violated = true;
        let s = format!("C18:finalize_not_empty:{}:fields={}", case.kind, case.nfields);
        let d = format!(
            "calling Finalize::finalize(&value) directly ran the finalizer of leaf {} (field {}); shape #{} variant {}:\n{}",
            id, case.expect[id].1, case.shape, case.variant, case.def
        );
        run.rep.viol("C18", "finalize_empty", &s, &d, &replay);
    }
    run.rep.count("finalize_direct_calls", 1);

    // (2) live phase: the holder is buffered but still owned by `h`, so the collector traces it in the counting
    // phase and again as a root; (3) garbage phase: the last handle is gone, the self-cycle is collected.
    let h = Cc::new(Holder { back: RefCell::new(None), inner: value });
    *h.back.borrow_mut() = Some(h.clone());
    drop(h.clone());
    collect_cycles();
    let r1 = TABLES.with(|t| t.holder_calls.get());
    let hits1 = snapshot(0, n);
    drop(h);
    collect_cycles();
    let r2 = TABLES.with(|t| t.holder_calls.get());
    let hits2 = snapshot(0, n);
    let fins2 = snapshot(1, n);
    let drops2 = snapshot(2, n);
    let hf = TABLES.with(|t| t.holder_fins.get());
    run.rep.max("holder_trace_calls_per_instance", r2 as u64);
    run.rep.set_add("holder_trace_calls_live_phase", r1.to_string());
    run.rep.set_add("holder_trace_calls_total", r2.to_string());

    if r1 == 0 || r2 <= r1 {
        run.rep.inconclusive(format!(
            "shape #{} variant {}: the holder was traced {} times while alive and {} times in total (need >= 1 each phase)",
            case.shape, case.variant, r1, r2
        ));
    } else {
        for (phase, hits, r) in [("live", &hits1, r1), ("garbage", &hits2, r2)] {
            if violated {
                break;
            }
            if let Some((id, text)) = compare(case, hits, r, phase == "live") {
                violated = true;
                let d = format!(
                    "after the {} phase (holder traced R={} times): {}; expected per leaf [{}], observed {:?}; shape #{} variant {}:\n{}",
                    phase, r, text, expect_text(case), hits, case.shape, case.variant, case.def
                );
                run.rep.viol("C18", "hits", &sig("hits", case, case.expect[id].1 as i32), &d, &replay);
            }
        }
        run.rep.count("leaves_checked", n as u64);
    }
    if let Some(id) = stray(n) {
        violated = true;
        let d = format!("leaf id {} does not belong to the instance but was traced / finalized; shape #{}:\n{}", id, case.shape, case.def);
        run.rep.viol("C18", "stray", &sig("stray_leaf", case, -1), &d, &replay);
    }
    let oob = TABLES.with(|t| t.oob.get());
    if oob != 0 {
        run.rep.inconclusive(format!("shape #{}: {} table accesses out of range (generator bug)", case.shape, oob));
    }

    // (4) the collector finalized the holder (which forwards to the derived finalizer): still no leaf finalizer,
    // except for leaves behind a Cc, which the collector may finalize on its own account.
    if hf >= 1 {
        run.rep.count("collector_finalized_holders", 1);
        if let Some(id) = (0..n).find(|&i| fins2[i] != 0 && !case.expect[i].2) {
            if !violated {
                violated = true;
                let s = format!("C18:finalize_not_empty:{}:fields={}", case.kind, case.nfields);
                let d = format!(
                    "the collector finalized the holder and the derived finalizer ran the finalizer of leaf {} (field {}); shape #{} variant {}:\n{}",
                    id, case.expect[id].1, case.shape, case.variant, case.def
                );
                run.rep.viol("C18", "finalize_empty", &s, &d, &replay);
            }
        }
    }

    // (5) a value behind a Cc field that the program still owns through `ext` must still be there: a field that is
    // reported twice makes the collector believe it owns every reference.
    let mut lost = None;
    for i in 0..n {
        if case.expect[i].2 && drops2[i] != 0 {
            lost = Some(i);
            break;
        }
    }
    if let Some(id) = lost {
        if !violated {
            violated = true;
            let d = format!(
                "leaf {} behind the Cc of field {} was dropped by the collection although the program still holds a handle (field traced more than once?); trace hits {:?}, R={}; shape #{} variant {}:\n{}",
                id, case.expect[id].1, hits2, r2, case.shape, case.variant, case.def
            );
            run.rep.viol("C18", "cc_over_traced", &sig("cc_dropped_while_held", case, case.expect[id].1 as i32), &d, &replay);
        }
        std::mem::forget(ext); // its target is gone: do not touch it again
    } else {
        drop(ext);
    }
    // informational: was the garbage holder actually reclaimed
    let drops3 = snapshot(2, n);
    if (0..n).all(|i| drops3[i] == 1) {
        run.rep.count("instances_fully_reclaimed", 1);
    }
    if violated {
        run.rep.count("instances_violated", 1);
    }
    // one sample per (core | random) x (struct | enum) slot
    let slot = (if case.shape >= NCORE { 2 } else { 0 }) + (if case.kind.starts_with("enum") { 1 } else { 0 });
    if case.nontrivial && !run.sampled[slot] {
        run.sampled[slot] = true;
        run.rep.sample(
            Json::obj()
                .set("shape", case.shape)
                .set("variant", case.variant)
                .set("definition", case.def)
                .set("expected_hits_per_leaf", expect_text(case))
                .set("R_live_phase", r1)
                .set("hits_live_phase", vec_json(&hits1))
                .set("R_total", r2)
                .set("hits_total", vec_json(&hits2))
                .set("finalize_hits", vec_json(&fins2))
                .set("shard", run.label.as_str()),
        );
    }
}

/// derive(Finalize) alone: the value is never traced; its finalizer must be empty.
pub fn run_finalize_only<T: Finalize>(run: &mut Run, case: &'static Case, value: T, ext: Vec<Box<dyn Any>>) {
    if run.instances >= run.limit {
        drop(value);
        drop(ext);
        return;
    }
    run.instances += 1;
    run.rep.evaluations += 1;
    run.rep.count("instances", 1);
    run.rep.count("finalize_only_instances", 1);
    let n = case.expect.len();
    reset_tables();
    Finalize::finalize(&value);
    Finalize::finalize(&value);
    let fins = snapshot(1, n);
    run.rep.count("finalize_direct_calls", 2);
    run.rep.count("leaves_checked", n as u64);
    if let Some(id) = fins.iter().position(|&c| c != 0) {
        let s = format!("C18:finalize_not_empty:{}:fields={}", case.kind, case.nfields);
        let d = format!(
            "calling Finalize::finalize(&value) directly ran the finalizer of leaf {} (field {}); shape #{} variant {}:\n{}",
            id, case.expect[id].1, case.shape, case.variant, case.def
        );
        let replay = run.replay(case);
        run.rep.viol("C18", "finalize_empty", &s, &d, &replay);
        run.rep.count("instances_violated", 1);
    }
    drop(value);
    drop(ext);
}
