#!/usr/bin/env python3
"""C18 runner: generates the probe package (gen.py), builds it against the repository working tree, runs the
run-time shards natively and under Miri, evaluates the compile probes, and prints the shard protocol of
/verif/PROTOCOL.md on stdout (`VIOL {json}` lines, one final `REPORT {json}` line).

    run.py --tier quick|thorough --seed S --out DIR --repo /repo [--target-dir DIR]
           [--only-shape I | --only-probe KIND] [--count N] [--no-miri]

Exit status: 0 = ran to completion (violations, if any, were printed); 3 = internal error / build environment
trouble (inconclusive, never a verdict).
"""
import argparse
import concurrent.futures
import fcntl
import json
import os
import re
import subprocess
import sys
import threading
import time

HERE = os.path.dirname(os.path.abspath(__file__))
sys.path.insert(0, HERE)
import gen  # noqa: E402

TIERS = {
    # count = random shapes (the enumerated core is always added)
    "quick": {"count": 60, "shards_p": 6, "shards_n": 5, "random_probes": 3,
              "miri_bins": 2, "miri_stride": 5, "miri_limit": 24, "miri_timeout": 420},
    "thorough": {"count": 600, "shards_p": 10, "shards_n": 8, "random_probes": 14,
                 "miri_bins": 99, "miri_stride": 1, "miri_limit": 400, "miri_timeout": 1500},
}
JOBS = int(os.environ.get("VERIF_JOBS", "16"))


def log(msg):
    sys.stderr.write("[c18] " + msg + "\n")
    sys.stderr.flush()


def cargo_env():
    env = dict(os.environ)
    env["CARGO_NET_OFFLINE"] = "true"
    env["CARGO_TERM_COLOR"] = "never"
    env["CARGO_INCREMENTAL"] = "0"
    env.pop("RUSTFLAGS", None)
    env.pop("MIRIFLAGS", None)
    return env


class Merged:
    def __init__(self):
        self.evaluations = 0
        self.counters = {}
        self.sets = {}
        self.samples = []
        self.inconclusive = []
        self.hashes = set()
        self.viols = []
        self.lock = threading.Lock()

    def count(self, k, n=1):
        self.counters[k] = self.counters.get(k, 0) + n

    def inconc(self, why):
        if len(self.inconclusive) < 40:
            self.inconclusive.append(why)

    def viol(self, oracle, signature, detail, replay, tool="native"):
        self.viols.append({"property": "C18", "oracle": oracle, "signature": signature, "detail": detail[:3000],
                           "replay": replay, "tool": tool})

    def absorb(self, out_text, prefix, fix_replay, tool):
        """Merges the VIOL / REPORT lines of one shard process."""
        got = False
        for line in out_text.splitlines():
            if line.startswith("VIOL "):
                try:
                    v = json.loads(line[5:])
                except ValueError:
                    continue
                v["replay"] = fix_replay(v.get("replay") or [])
                v["tool"] = tool
                self.viols.append(v)
            elif line.startswith("REPORT "):
                try:
                    r = json.loads(line[7:])
                except ValueError:
                    continue
                got = True
                self.evaluations += int(r.get("evaluations", 0))
                for k, v in r.get("counters", {}).items():
                    if k.startswith("max_"):
                        self.counters[k] = max(self.counters.get(k, 0), int(v))
                    elif k == "violations_reported":
                        self.count(k, int(v))
                    else:
                        self.count(prefix + k, int(v))
                for k, v in r.get("sets", {}).items():
                    self.sets.setdefault(prefix + k, set()).update(v)
                for s in r.get("samples", []):
                    self.samples.append(s)
                for h in r.get("nontrivial_hashes", []):
                    self.hashes.add(int(h))
                for s in r.get("inconclusive", []):
                    self.inconc(s)
        return got

    def emit(self):
        seen = set()
        for v in self.viols:
            key = (v.get("signature"), v.get("tool"))
            if key in seen:
                continue
            seen.add(key)
            if len(seen) > 60:
                break
            print("VIOL " + json.dumps(v))
        # a few samples of different sorts: random shapes before core shapes, structs and enums alternating
        groups = {}
        for smp in self.samples:
            key = (0 if smp.get("shape", 0) >= len(gen.core()) else 1, "enum" in str(smp.get("definition", "")))
            groups.setdefault(key, []).append(smp)
        picked = []
        while len(picked) < 5 and any(groups.values()):
            for key in sorted(groups):
                if groups[key] and len(picked) < 5:
                    picked.append(groups[key].pop(0))
        self.samples = picked
        rep = {
            "evaluations": self.evaluations,
            "counters": self.counters,
            "sets": {k: sorted(v) for k, v in self.sets.items()},
            "samples": self.samples[:5],
            "inconclusive": self.inconclusive,
            "nontrivial_hashes": sorted(self.hashes),
        }
        print("REPORT " + json.dumps(rep))
        sys.stdout.flush()


# ---- compiler diagnostics ---------------------------------------------------------------------------

def all_span_text(msg):
    out = []

    def walk_span(sp):
        for t in sp.get("text") or []:
            out.append(t.get("text", ""))
        exp = sp.get("expansion")
        if exp and exp.get("span"):
            walk_span(exp["span"])

    for sp in msg.get("spans") or []:
        walk_span(sp)
    for ch in msg.get("children") or []:
        for sp in ch.get("spans") or []:
            walk_span(sp)
    return "\n".join(out)


def classify_error(msg):
    """-> (category, info). Categories: drop_conflict (E0119 on Drop), ignored_visited (the expansion requires
    Trace of a type that only ever occurs on ignored positions), other."""
    code = (msg.get("code") or {}).get("code")
    text = msg.get("message", "")
    if code == "E0119" and "`Drop`" in text:
        return "drop_conflict", text
    if code == "E0277" and re.search(r": (?:\w+::)*Trace` is not satisfied", text):
        hay = text + "\n" + "\n".join(c.get("message", "") for c in msg.get("children") or [])
        for m in gen.NONTRACE_MARKERS:
            if m in hay:
                return "ignored_visited", m
        if "/*IGN*/" in all_span_text(msg):
            return "ignored_visited", "?"
    return "other", "%s: %s" % (code, text[:200])


def primary_location(msg):
    for sp in msg.get("spans") or []:
        if sp.get("is_primary"):
            return sp.get("file_name"), sp.get("line_start")
    for sp in msg.get("spans") or []:
        return sp.get("file_name"), sp.get("line_start")
    return None, None


def shape_at(pkg_dir, file_name, line):
    """Index of the generated shape whose module contains `line` of `file_name`."""
    try:
        path = file_name if os.path.isabs(file_name) else os.path.join(pkg_dir, file_name)
        with open(path) as f:
            lines = f.read().splitlines()
        for i in range(min(line, len(lines)) - 1, -1, -1):
            m = re.match(r"mod s(\d+) \{", lines[i])
            if m:
                return int(m.group(1))
    except (OSError, TypeError):
        pass
    return None


def build_all(pkg, target_dir, timeout):
    """One cargo invocation for the library and every binary; failures of single binaries are expected (probes A).
    Returns (artifacts: bin -> executable, errors: bin -> [diagnostic], lib_ok, raw_tail)."""
    argv = ["cargo", "build", "--offline", "--bins", "--keep-going", "--message-format=json", "--target-dir", target_dir]
    try:
        r = subprocess.run(argv, cwd=pkg, env=cargo_env(), stdout=subprocess.PIPE, stderr=subprocess.PIPE, text=True,
                           timeout=timeout)
    except subprocess.TimeoutExpired:
        return None, None, False, "cargo build: watchdog fired after %ds" % timeout
    arts = {}
    errs = {}
    foreign_errors = []
    for line in r.stdout.splitlines():
        if not line.startswith("{"):
            continue
        try:
            j = json.loads(line)
        except ValueError:
            continue
        reason = j.get("reason")
        tgt = j.get("target") or {}
        is_ours = "c18pkg" in (j.get("package_id") or "") or "c18pkg" in (j.get("manifest_path") or "")
        if reason == "compiler-artifact" and "bin" in (tgt.get("kind") or []) and j.get("executable"):
            arts[tgt.get("name")] = j["executable"]
        elif reason == "compiler-message":
            msg = j.get("message") or {}
            if msg.get("level") != "error":
                continue
            if (msg.get("message") or "").startswith("aborting due to"):
                continue
            if "bin" in (tgt.get("kind") or []) and is_ours:
                errs.setdefault(tgt.get("name"), []).append(msg)
            else:
                foreign_errors.append("%s: %s" % (tgt.get("name"), (msg.get("message") or "")[:300]))
    lib_ok = not foreign_errors
    tail = (r.stderr or "")[-3000:]
    if foreign_errors:
        tail = "errors outside the generated binaries: " + " | ".join(foreign_errors[:5]) + "\n" + tail
    return arts, errs, lib_ok, tail


# ---- main -------------------------------------------------------------------------------------------

def main():
    ap = argparse.ArgumentParser()
    ap.add_argument("--tier", default="quick", choices=sorted(TIERS))
    ap.add_argument("--seed", type=int, default=1)
    ap.add_argument("--out", required=True)
    ap.add_argument("--repo", default="/repo")
    ap.add_argument("--target-dir", default=None)
    ap.add_argument("--vcommon", default=None)
    ap.add_argument("--count", type=int, default=None)
    ap.add_argument("--only-shape", type=int, default=None)
    ap.add_argument("--only-probe", default=None)
    ap.add_argument("--no-miri", action="store_true")
    a = ap.parse_args()
    t0 = time.time()
    tier = dict(TIERS[a.tier])
    if a.count is not None:
        tier["count"] = a.count
    out = os.path.abspath(a.out)
    repo = os.path.abspath(a.repo)
    target_dir = os.path.abspath(a.target_dir) if a.target_dir else os.path.join(os.path.dirname(os.path.dirname(out)), "c18-target")
    os.makedirs(out, exist_ok=True)
    os.makedirs(target_dir, exist_ok=True)
    lockf = open(os.path.join(out, ".c18.lock"), "w")
    fcntl.flock(lockf, fcntl.LOCK_EX)

    M = Merged()
    base_replay = ["--tier", a.tier, "--seed", str(a.seed), "--repo", repo, "--out", out, "--target-dir", target_dir]

    def fix_replay(r):
        r = list(r)
        idx = None
        if "--only-shape" in r:
            idx = r[r.index("--only-shape") + 1]
        return base_replay + (["--only-shape", str(idx)] if idx is not None else [])

    # ---- generate -------------------------------------------------------------------------------
    try:
        meta = gen.generate(a.seed, tier["count"], out, repo, a.vcommon, a.only_shape, a.only_probe,
                            tier["shards_p"], tier["shards_n"], tier["random_probes"])
    except Exception as e:  # generator bug: internal error
        log("generator failed: %r" % (e,))
        M.inconc("generator failed: %r" % (e,))
        M.emit()
        return 3
    shard_bins = [s for s in meta["shards"] if s["shapes"]]
    nshapes = sum(len(s["shapes"]) for s in shard_bins)
    log("generated %d shapes in %d shards, %d compile probes (%.1fs)" % (nshapes, len(shard_bins), len(meta["probes"]), time.time() - t0))
    M.count("shapes_generated", nshapes)

    # resolve the lock file once, so that the stable and the nightly cargo do not both rewrite it
    r = subprocess.run(["cargo", "metadata", "--offline", "--format-version", "1"], cwd=out, env=cargo_env(),
                       stdout=subprocess.DEVNULL, stderr=subprocess.PIPE, text=True)
    if r.returncode != 0:
        log("cargo metadata failed: " + r.stderr[-2000:])
        M.inconc("cargo metadata failed (build environment): " + r.stderr[-300:].replace("\n", " | "))
        M.emit()
        return 3

    pool = concurrent.futures.ThreadPoolExecutor(max_workers=JOBS)

    # ---- Miri (own target sub-directory, runs concurrently with the native build) ----------------
    def miri_run(shard):
        argv = ["cargo", "+nightly", "miri", "run", "--offline", "--bin", shard["bin"], "--target-dir", target_dir, "--",
                "--seed", str(a.seed)]
        if a.only_shape is None:
            argv += ["--stride", str(tier["miri_stride"]), "--limit", str(tier["miri_limit"])]
        env = cargo_env()
        env["MIRIFLAGS"] = "-Zmiri-disable-isolation -Zmiri-ignore-leaks"
        t = time.time()
        try:
            r = subprocess.run(argv, cwd=out, env=env, stdout=subprocess.PIPE, stderr=subprocess.PIPE, text=True,
                               timeout=tier["miri_timeout"])
            if r.returncode != 0 and "Undefined Behavior" not in r.stderr and "REPORT " not in r.stdout and (
                    "could not compile" in r.stderr or "error[E" in r.stderr or "error: " in r.stderr):
                # cargo-miri compiles the binary itself outside cargo's build lock: a dependency rebuilt by a
                # concurrent process (repository edited meanwhile) makes that fail spuriously. Try once more.
                r = subprocess.run(argv, cwd=out, env=env, stdout=subprocess.PIPE, stderr=subprocess.PIPE, text=True,
                                   timeout=tier["miri_timeout"])
            try:
                os.makedirs(os.path.join(out, "logs"), exist_ok=True)
                with open(os.path.join(out, "logs", "miri-%s.err" % shard["bin"]), "w") as f:
                    f.write(r.stderr)
            except OSError:
                pass
            return shard, r.returncode, r.stdout, r.stderr, time.time() - t
        except subprocess.TimeoutExpired:
            return shard, None, "", "", time.time() - t

    miri_futs = []
    if not a.no_miri and a.only_probe is None:
        # spread over both classes of shards
        ps = [s for s in shard_bins if s["class"] == "p"]
        ns = [s for s in shard_bins if s["class"] == "n"]
        order = []
        for i in range(max(len(ps), len(ns))):
            if i < len(ps):
                order.append(ps[i])
            if i < len(ns):
                order.append(ns[i])
        for s in order[:tier["miri_bins"]]:
            miri_futs.append(pool.submit(miri_run, s))

    # ---- native build ---------------------------------------------------------------------------
    tb = time.time()
    arts, errs, lib_ok, tail = build_all(out, target_dir, 1500)
    log("native build: %.1fs" % (time.time() - tb))
    if arts is None or not lib_ok:
        log("build trouble outside the generated binaries:\n" + tail)
        M.inconc("build failed outside the generated binaries (inconclusive, not a verdict): " + tail[-400:].replace("\n", " | "))
        for f in miri_futs:
            f.cancel()
        M.emit()
        return 3

    # ---- run-time shards, native ----------------------------------------------------------------
    def native_run(shard):
        exe = arts.get(shard["bin"])
        argv = [exe, "--seed", str(a.seed)]
        if a.only_shape is not None:
            argv += ["--only-shape", str(a.only_shape)]
        try:
            r = subprocess.run(argv, cwd=out, stdout=subprocess.PIPE, stderr=subprocess.PIPE, text=True, timeout=300)
            return shard, r.returncode, r.stdout, r.stderr
        except subprocess.TimeoutExpired:
            return shard, None, "", ""

    futs = []
    for s in shard_bins:
        if s["bin"] in arts:
            futs.append(pool.submit(native_run, s))
            continue
        # the shard did not compile: on the unmodified tree it does, so look at why
        cats = {}
        for msg in errs.get(s["bin"], []):
            cat, info = classify_error(msg)
            cats.setdefault(cat, []).append((info, msg))
        if "ignored_visited" in cats:
            seen = set()
            for info, msg in cats["ignored_visited"]:
                if info in seen:
                    continue
                seen.add(info)
                fn, ln = primary_location(msg)
                idx = shape_at(out, fn, ln) if fn else None
                detail = ("the generated package compiles on an unmodified tree; here the expansion of derive(Trace) requires "
                          "`%s: Trace`, a type that the generator only puts on #[rust_cc(ignore)] positions (shard %s, shape #%s): %s"
                          % (info, s["bin"], idx, (msg.get("rendered") or msg.get("message") or "")[:1500]))
                M.viol("compile:ignored_visited", "C18:ignored_field_visited:%s" % info, detail,
                       base_replay + (["--only-shape", str(idx)] if idx is not None else []))
            M.count("shards_rejected_ignored_field_visited", 1)
        others = cats.get("other", []) + cats.get("drop_conflict", [])
        if others or not cats:
            M.inconc("shard %s did not compile for a reason the check does not judge: %s" % (
                s["bin"], " | ".join(i for i, _ in others[:3]) or tail[-300:].replace("\n", " | ")))
    for f in futs:
        shard, rc, so, se = f.result()
        got = M.absorb(so, "", fix_replay, "native")
        if rc is None:
            M.inconc("shard %s: watchdog fired (inconclusive)" % shard["bin"])
        elif rc == 3:
            M.inconc("shard %s: internal error: %s" % (shard["bin"], se[-300:].replace("\n", " | ")))
        elif rc != 0:
            m = re.search(r"panicked at ([^\n]*)", se)
            where = re.sub(r":\d+:\d+", "", m.group(1)) if m else ""
            where = re.sub(r"^.*?/(src/[a-z_/]+\.rs)", r"\1", where)
            M.viol("crash", "C18:crash:rc=%s:%s" % (rc, where[:80]),
                   "shard %s died abnormally (rc=%s) while running legal programs built with the derive macros: %s" % (
                       shard["bin"], rc, se[-1500:]), base_replay)
        elif not got:
            M.inconc("shard %s: exited 0 without a REPORT line" % shard["bin"])

    # ---- compile probes ---------------------------------------------------------------------------
    def run_probe_b(p):
        try:
            r = subprocess.run([arts[p["bin"]]], cwd=out, stdout=subprocess.PIPE, stderr=subprocess.PIPE, text=True, timeout=60)
            return p, r.returncode, r.stdout, r.stderr
        except subprocess.TimeoutExpired:
            return p, None, "", ""

    bfuts = []
    for p in meta["probes"]:
        kind, mode, name = p["kind"], p["mode"], p["bin"]
        replay = base_replay + ["--only-probe", kind]
        compiled = name in arts
        cats = {}
        for msg in errs.get(name, []):
            cat, info = classify_error(msg)
            cats.setdefault(cat, []).append((info, msg))
        if not compiled and not cats:
            M.inconc("probe %s: not built and no diagnostic (build environment?)" % name)
            continue
        if "ignored_visited" in cats:
            info, msg = cats["ignored_visited"][0]
            M.viol("compile:ignored_visited", "C18:ignored_field_visited:%s" % info,
                   "probe %s: the expansion of derive(Trace) requires `%s: Trace` for a type on an ignored position: %s\n%s" % (
                       name, info, (msg.get("rendered") or "")[:1200], p["def"]), replay)
        other = "; ".join(i for i, _ in cats.get("other", [])[:3])
        if mode == "a":
            if compiled:
                M.evaluations += 1
                M.count("probes_A_evaluated", 1)
                M.viol("compile:drop_conflict", "C18:drop_conflict:%s" % kind,
                       "probe A (derive(Trace) without unsafe_no_drop + hand-written `impl Drop`) compiled, it must be rejected with E0119:\n%s" % p["def"], replay)
            elif "drop_conflict" in cats:
                M.evaluations += 1
                M.count("probes_A_evaluated", 1)
                M.count("probes_A_failed_as_expected", 1)
                M.sets.setdefault("probe_A_diagnostics", set()).add(cats["drop_conflict"][0][0][:160])
            else:
                M.inconc("probe %s failed for an unrelated reason (%s): neither a pass nor a violation" % (name, other))
        elif mode == "b":
            if compiled:
                bfuts.append(pool.submit(run_probe_b, p))
            elif "drop_conflict" in cats:
                M.evaluations += 1
                M.count("probes_B_evaluated", 1)
                M.viol("compile:no_drop_ignored", "C18:unsafe_no_drop_ignored:%s" % kind,
                       "probe B (#[rust_cc(unsafe_no_drop)] + hand-written `impl Drop`) was rejected with E0119: the derive still emits a Drop impl: %s\n%s" % (
                           cats["drop_conflict"][0][0], p["def"]), replay)
            elif "ignored_visited" not in cats:
                M.inconc("probe %s failed for an unrelated reason (%s): neither a pass nor a violation" % (name, other))
        else:
            if compiled:
                M.evaluations += 1
                M.count("probes_C_compiled", 1)
            elif "ignored_visited" not in cats:
                M.inconc("probe %s (shape alone) failed to compile (%s): probes A / B of kind %s prove nothing" % (name, other, kind))
    for f in bfuts:
        p, rc, so, se = f.result()
        M.evaluations += 1
        M.count("probes_B_evaluated", 1)
        if rc is None:
            M.inconc("probe %s: watchdog fired" % p["bin"])
        elif rc == 0 and so.count("C18_DROP_RAN") >= 1 and "C18_MAIN_DONE" in so:
            M.count("probes_B_ran_destructor", 1)
        elif rc == 0 and "C18_MAIN_DONE" in so:
            M.viol("run:destructor", "C18:unsafe_no_drop_destructor_not_run:%s" % p["kind"],
                   "probe B compiled, but dropping a value did not run the hand-written destructor:\n%s" % p["def"],
                   base_replay + ["--only-probe", p["kind"]])
        else:
            M.inconc("probe %s: abnormal exit rc=%s: %s" % (p["bin"], rc, se[-300:].replace("\n", " | ")))

    # ---- Miri results -----------------------------------------------------------------------------
    for f in miri_futs:
        shard, rc, so, se, wall = f.result()
        name = shard["bin"]
        M.count("miri_processes", 1)
        M.counters["max_miri_process_wall_s"] = max(M.counters.get("max_miri_process_wall_s", 0), int(wall))
        before = M.counters.get("miri_instances", 0)
        M.absorb(so, "miri_", fix_replay, "miri")
        if rc is None:
            M.inconc("miri %s: watchdog fired after %ds (inconclusive)" % (name, tier["miri_timeout"]))
        elif rc != 0:
            m = re.search(r"error: Undefined Behavior: (.*)", se)
            if m:
                what = re.sub(r"0x[0-9a-f]+|\d+", "N", m.group(1))[:100]
                M.viol("sanitizer:miri", "C18:miri:%s" % what,
                       "Miri reported undefined behaviour while shard %s ran legal programs built with the derive macros: %s" % (name, se[-2500:]),
                       base_replay, tool="miri")
            elif name not in arts and name in errs:
                pass  # does not compile natively either: judged above
            else:
                first = [l for l in se.splitlines() if l.startswith("error")][:3]
                M.inconc("miri %s: rc=%s without an undefined-behaviour report: %s ... %s" % (
                    name, rc, " | ".join(first)[:400], se[-200:].replace("\n", " | ")))
        elif M.counters.get("miri_instances", 0) == before:
            M.inconc("miri %s: no instance executed" % name)
    pool.shutdown()

    M.counters["max_wall_s"] = int(time.time() - t0)
    log("done in %.1fs: evaluations=%d violations=%d inconclusive=%d" % (time.time() - t0, M.evaluations, len(M.viols), len(M.inconclusive)))
    M.emit()
    return 0


if __name__ == "__main__":
    try:
        sys.exit(main())
    except Exception as e:  # internal error: inconclusive, never a verdict
        import traceback
        traceback.print_exc()
        print("REPORT " + json.dumps({"evaluations": 0, "counters": {}, "sets": {}, "samples": [],
                                      "inconclusive": ["run.py internal error: %r" % (e,)], "nontrivial_hashes": []}))
        sys.exit(3)
