#!/usr/bin/env python3
"""C18 generator: writes a cargo package whose binaries exercise the REAL derive macros of rust-cc
(`#[derive(Trace)]`, `#[derive(Finalize)]`) on generated type definitions.

    gen.py --seed S --count N --out DIR --repo /repo [--only-shape I] [--only-probe NAME]

Deterministic from --seed: shape number i (>= number of core shapes) depends on (seed, i) only, so a single
shape can be regenerated with --only-shape i. The enumerated core (indices 0..CORE-1) does not depend on the seed.

Package layout (package `c18pkg`):
    Cargo.toml, Cargo.lock (copied from the repository)
    src/lib.rs            monitors: Leaf / Inner / Holder probes, hit tables, the run-time oracle
    src/main.rs           first run-time shard (bin `c18pkg`)
    src/bin/shard_*.rs    further run-time shards; `shard_n*` hold the shapes that put non-Trace types
                          on ignored positions, `shard_p*` / main.rs the shapes made of Trace types only
    src/bin/probe_*.rs    compile probes A (derive + hand-written Drop), B (unsafe_no_drop + Drop), C (alone)
    meta.json             what was generated (read by run.py)
"""
import argparse
import hashlib
import json
import os
import random
import shutil
import sys

HERE = os.path.dirname(os.path.abspath(__file__))
MAXLEAF = 256

# ------------------------------------------------------------------------------------------------
# type expressions
#   ("leaf",) ("inner",) ("cc", X) ("opt", X) ("vec", X) ("tup", X, Y) ("box", X) ("refcell", X)
#   ("arr", X) ("param", name) ("nt", k)
NONTRACE = [
    ("Cell<u32>", "Cell::new(7u32)"),
    ("Rc<u32>", "Rc::new(7u32)"),
    ("NoTrace", "NoTrace(7)"),
    ("&'static str", "\"x\""),
    ("Rc<Leaf>", None),  # a leaf that nobody may reach
]
# substrings that identify one of the above in a compiler message
NONTRACE_MARKERS = ["Cell<u32>", "Rc<u32>", "NoTrace", "&'static str", "Rc<Leaf>"]


def ty_text(t, inst=None):
    k = t[0]
    if k == "leaf":
        return "Leaf"
    if k == "inner":
        return "Inner"
    if k == "cc":
        return "Cc<%s>" % ty_text(t[1], inst)
    if k == "opt":
        return "Option<%s>" % ty_text(t[1], inst)
    if k == "vec":
        return "Vec<%s>" % ty_text(t[1], inst)
    if k == "tup":
        return "(%s, %s)" % (ty_text(t[1], inst), ty_text(t[2], inst))
    if k == "box":
        return "Box<%s>" % ty_text(t[1], inst)
    if k == "refcell":
        return "RefCell<%s>" % ty_text(t[1], inst)
    if k == "arr":
        return "[%s; 2]" % ty_text(t[1], inst)
    if k == "param":
        if inst is not None:
            return ty_text(inst[t[1]], None)
        return t[1]
    if k == "nt":
        return NONTRACE[t[1]][0]
    raise ValueError(t)


def ty_any(t, pred):
    if pred(t):
        return True
    return any(ty_any(x, pred) for x in t[1:] if isinstance(x, tuple))


def ty_params(t, acc):
    if t[0] == "param":
        acc.add(t[1])
    for x in t[1:]:
        if isinstance(x, tuple):
            ty_params(x, acc)
    return acc


CONTAINERS = ["opt", "vec", "tup", "box", "refcell", "arr"]


def rand_container(rng, inner_fn):
    c = rng.choice(CONTAINERS)
    if c == "tup":
        return ("tup", inner_fn(), inner_fn())
    return (c, inner_fn())


def rand_plain(rng, depth):
    """Trace type without Cc and without parameters (used to instantiate type parameters)."""
    if depth <= 0 or rng.random() < 0.5:
        return ("leaf",)
    return rand_container(rng, lambda: rand_plain(rng, depth - 1))


def rand_under_cc(rng, params):
    bounded = [n for n, b in params if b]
    r = rng.random()
    if bounded and r < 0.35:
        return ("param", rng.choice(bounded))
    if r < 0.65:
        return ("inner",)
    if r < 0.75:
        return ("leaf",)
    return rng.choice([("vec", ("leaf",)), ("tup", ("leaf",), ("leaf",)), ("opt", ("leaf",)), ("box", ("leaf",)),
                       ("refcell", ("leaf",)), ("arr", ("leaf",))])


def rand_ty(rng, depth, params, allow_cc=True):
    """A type that implements Trace."""
    r = rng.random()
    if params and r < 0.16:
        return ("param", rng.choice(params)[0])
    if r < 0.50 or depth <= 0:
        return ("leaf",) if rng.random() < 0.9 else ("inner",)
    if allow_cc and r < 0.62:
        return ("cc", rand_under_cc(rng, params))
    return rand_container(rng, lambda: rand_ty(rng, depth - 1, params, allow_cc))


# ------------------------------------------------------------------------------------------------
# instance construction

class Builder:
    def __init__(self, rng, inst):
        self.rng = rng
        self.inst = inst
        # (cls, field, under_cc)   cls: 'R' once per holder trace, 'Z' never, 'C' behind a traced Cc (>= 1),
        # 'Y' behind an ignored Cc (never while the owner is alive; once the owner is destroyed the collector may
        # trace the Cc target on its own account, because dropping the field buffers it)
        self.leaves = []
        self.prelude = []
        self.ext = []

    def leaf(self, cls, field, under_cc):
        self.leaves.append((cls, field, under_cc))
        return len(self.leaves) - 1

    def build(self, t, cls, field, under_cc=False):
        k = t[0]
        rng = self.rng
        if k == "leaf":
            return "Leaf::new(%d)" % self.leaf(cls, field, under_cc)
        if k == "inner":
            return "Inner::new(%d)" % self.leaf(cls, field, under_cc)
        if k == "cc":
            assert not under_cc
            inner_cls = "C" if cls == "R" else "Y"
            n0 = len(self.leaves)
            e = self.build(t[1], inner_cls, field, True)
            assert len(self.leaves) > n0, "a Cc probe must own at least one leaf"
            name = "cc%d" % len(self.ext)
            self.prelude.append("let %s: Cc<%s> = Cc::new(%s);" % (name, ty_text(t[1], self.inst), e))
            self.ext.append(name)
            return "%s.clone()" % name
        if k == "opt":
            if under_cc or rng.random() < 0.75:
                return "Some(%s)" % self.build(t[1], cls, field, under_cc)
            return "None"
        if k == "vec":
            n = rng.randint(1, 3) if under_cc else rng.randint(0, 3)
            if n == 0:
                return "Vec::new()"
            return "vec![%s]" % ", ".join(self.build(t[1], cls, field, under_cc) for _ in range(n))
        if k == "tup":
            return "(%s, %s)" % (self.build(t[1], cls, field, under_cc), self.build(t[2], cls, field, under_cc))
        if k == "box":
            return "Box::new(%s)" % self.build(t[1], cls, field, under_cc)
        if k == "refcell":
            return "RefCell::new(%s)" % self.build(t[1], cls, field, under_cc)
        if k == "arr":
            return "[%s, %s]" % (self.build(t[1], cls, field, under_cc), self.build(t[1], cls, field, under_cc))
        if k == "param":
            return self.build(self.inst[t[1]], cls, field, under_cc)
        if k == "nt":
            text, expr = NONTRACE[t[1]]
            if expr is None:
                assert cls == "Z"
                return "Rc::new(Leaf::new(%d))" % self.leaf("Z", field, under_cc)
            return expr
        raise ValueError(t)


# ------------------------------------------------------------------------------------------------
# shapes

def mk_field(ty, ignored, extra=""):
    return {"ty": ty, "ignored": ignored, "extra": extra}


def shape_has_nt(sh):
    for f in all_fields(sh):
        if ty_any(f["ty"], lambda t: t[0] == "nt"):
            return True
    return False


def all_fields(sh):
    if sh["kind"] == "enum":
        for v in sh["variants"]:
            for f in v["fields"]:
                yield f
    else:
        for f in sh["fields"]:
            yield f


def new_shape(idx, kind, origin):
    return {"idx": idx, "kind": kind, "params": [], "inst": {}, "no_drop": False, "fin_only": False,
            "fields": [], "variants": [], "origin": origin}


def generics_decl(sh):
    if not sh["params"]:
        return ""
    return "<" + ", ".join(n + (": Trace + 'static" if b else "") for n, b in sh["params"]) + ">"


def generics_use(sh):
    if not sh["params"]:
        return ""
    return "<" + ", ".join(n for n, _ in sh["params"]) + ">"


def generics_inst(sh):
    if not sh["params"]:
        return ""
    return "<" + ", ".join(ty_text(sh["inst"][n]) for n, _ in sh["params"]) + ">"


def field_lines(fields, named, fin_only, in_ignored_variant, indent, in_enum=False):
    out = []
    for i, f in enumerate(fields):
        attrs = ""
        if f["extra"] == "doc":
            out.append("%s/// a documented field" % indent)
        elif f["extra"] == "allow":
            attrs += "#[allow(dead_code)] "
        if f["ignored"] and not fin_only:
            attrs += "#[rust_cc(ignore)] "
        vis = "pub " if f["extra"] == "pub" and not in_enum else ""
        name = ("f%d: " % i) if named else ""
        marker = ""
        if not fin_only and (f["ignored"] or in_ignored_variant):
            marker = " /*IGN*/"
        out.append("%s%s%s%s%s,%s" % (indent, attrs, vis, name, ty_text(f["ty"]), marker))
    return out


def emit_def(sh, name, force_no_drop=False):
    """The type definition as Rust source lines (one field per line; ignored positions carry an /*IGN*/ marker)."""
    fin_only = sh["fin_only"]
    lines = []
    lines.append("#[derive(Finalize)]" if fin_only else "#[derive(Trace, Finalize)]")
    if (sh["no_drop"] or force_no_drop) and not fin_only:
        lines.append("#[rust_cc(unsafe_no_drop)]")
    g = generics_decl(sh)
    k = sh["kind"]
    if k == "unit":
        lines.append("pub struct %s;" % name)
    elif k == "tuple":
        lines.append("pub struct %s%s(" % (name, g))
        lines += field_lines(sh["fields"], False, fin_only, False, "    ")
        lines.append(");")
    elif k == "named":
        lines.append("pub struct %s%s {" % (name, g))
        lines += field_lines(sh["fields"], True, fin_only, False, "    ")
        lines.append("}")
    elif k == "enum":
        lines.append("pub enum %s%s {" % (name, g))
        for v in sh["variants"]:
            ign = v["ignored"] and not fin_only
            if ign:
                lines.append("    #[rust_cc(ignore)]")
            if v["vkind"] == "unit":
                lines.append("    %s,%s" % (v["name"], " /*IGN*/" if ign else ""))
            elif v["vkind"] == "tuple":
                lines.append("    %s(" % v["name"])
                lines += field_lines(v["fields"], False, fin_only, ign, "        ", True)
                lines.append("    ),")
            else:
                lines.append("    %s {" % v["name"])
                lines += field_lines(v["fields"], True, fin_only, ign, "        ", True)
                lines.append("    },")
        lines.append("}")
    else:
        raise ValueError(k)
    return lines


def value_expr(name, vname, vkind, exprs):
    path = name if vname is None else "%s::%s" % (name, vname)
    if vkind == "unit":
        return path
    if vkind == "tuple":
        return "%s(%s)" % (path, ", ".join(exprs))
    return "%s { %s }" % (path, ", ".join("f%d: %s" % (i, e) for i, e in enumerate(exprs)))


def instances(sh, name, rng):
    """One instance per struct, one per variant for enums. Returns dicts with the construction code and the
    expected hit class of every leaf."""
    out = []
    if sh["kind"] == "enum":
        todo = [(v["name"], v["vkind"], v["fields"], v["ignored"]) for v in sh["variants"]]
    else:
        todo = [(None, sh["kind"], sh["fields"], False)]
    for vname, vkind, fields, vign in todo:
        b = Builder(rng, sh["inst"])
        exprs = []
        for i, f in enumerate(fields):
            dead = f["ignored"] or vign or sh["fin_only"]
            exprs.append(b.build(f["ty"], "Z" if dead else "R", i))
        assert len(b.leaves) < MAXLEAF
        mask = "".join("1" if f["ignored"] else "0" for f in fields) or "-"
        if vign:
            mask = "V" + mask
        n_ign = sum(1 for f in fields if f["ignored"])
        nontrivial = (not vign) and (not sh["fin_only"]) and len(fields) >= 2 and 0 < n_ign < len(fields)
        kind = vkind if sh["kind"] != "enum" else "enum." + vkind
        if sh["params"]:
            kind += ".generic"
        if sh["fin_only"]:
            kind += ".finalize_only"
        out.append({
            "variant": vname or "-", "kind": kind, "nfields": len(fields), "mask": mask,
            "prelude": b.prelude, "ext": b.ext, "expr": value_expr(name, vname, vkind, exprs),
            "type": name + generics_inst(sh), "leaves": b.leaves, "nontrivial": nontrivial,
        })
    return out


# ---- enumerated core ---------------------------------------------------------------------------

def core_shapes():
    shapes = []

    def add(sh):
        sh["idx"] = len(shapes)
        shapes.append(sh)

    add(new_shape(0, "unit", "core"))
    traced_cycle = [("leaf",), ("vec", ("leaf",)), ("opt", ("leaf",)), ("cc", ("inner",)), ("box", ("leaf",))]
    for kind in ("named", "tuple"):
        for n in range(0, 5):
            for mask in range(0, 1 << n):
                for nt in (False, True):
                    if nt and mask == 0:
                        continue
                    sh = new_shape(0, kind, "core")
                    for i in range(n):
                        ign = bool(mask >> i & 1)
                        if ign:
                            ty = ("nt", (i + mask) % len(NONTRACE)) if nt else ("leaf",)
                        else:
                            ty = traced_cycle[(i + mask) % len(traced_cycle)] if nt else ("leaf",)
                        sh["fields"].append(mk_field(ty, ign))
                    add(sh)
    # enums: 1..3 variants, every variant kind x ignored or not
    vk = [(k, ign) for k in ("unit", "tuple", "named") for ign in (False, True)]
    count = 0
    for nv in (1, 2, 3):
        combos = [[]]
        for _ in range(nv):
            combos = [c + [x] for c in combos for x in vk]
        for combo in combos:
            sh = new_shape(0, "enum", "core")
            count += 1
            for vi, (k, ign) in enumerate(combo):
                fields = []
                if k != "unit":
                    second = ("nt", (count + vi) % len(NONTRACE)) if count % 2 else ("leaf",)
                    fields = [mk_field(("leaf",), False), mk_field(second, True)]
                    if ign and count % 4 == 3:
                        # inside an ignored variant even an un-annotated field may be of a non-Trace type
                        fields.append(mk_field(("nt", 2), False))
                sh["variants"].append({"name": "V%d" % vi, "vkind": k, "ignored": ign, "fields": fields})
            add(sh)
    # derive(Finalize) alone
    for kind in ("unit", "tuple", "named", "enum"):
        sh = new_shape(0, kind, "core")
        sh["fin_only"] = True
        if kind in ("tuple", "named"):
            sh["fields"] = [mk_field(("leaf",), False), mk_field(("vec", ("leaf",)), False), mk_field(("nt", 0), False)]
        if kind == "enum":
            sh["variants"] = [
                {"name": "V0", "vkind": "unit", "ignored": False, "fields": []},
                {"name": "V1", "vkind": "tuple", "ignored": False, "fields": [mk_field(("leaf",), False), mk_field(("opt", ("leaf",)), False)]},
                {"name": "V2", "vkind": "named", "ignored": False, "fields": [mk_field(("box", ("leaf",)), False)]},
            ]
        add(sh)
    return shapes


CORE = None


def core():
    global CORE
    if CORE is None:
        CORE = core_shapes()
    return CORE


# ---- random shapes -----------------------------------------------------------------------------

def rand_fields(rng, n, params, p_ignore, in_ignored_variant):
    fields = []
    for _ in range(n):
        ign = rng.random() < p_ignore
        if ign and rng.random() < 0.4:
            ty = ("nt", rng.randrange(len(NONTRACE)))
        elif in_ignored_variant and not ign and rng.random() < 0.25:
            ty = ("nt", rng.choice([0, 1, 2, 3]))
        else:
            ty = rand_ty(rng, 2, params)
        extra = rng.choice(["", "", "", "", "doc", "allow", "pub"])
        fields.append(mk_field(ty, ign, extra))
    return fields


def random_shape(seed, idx):
    rng = random.Random("c18:%d:%d" % (seed, idx))
    kind = rng.choices(["named", "tuple", "unit", "enum"], weights=[30, 25, 2, 43])[0]
    sh = new_shape(idx, kind, "random")
    if kind != "unit":
        np = rng.choices([0, 1, 2], weights=[50, 30, 20])[0]
        names = ["T", "U"][:np]
        sh["params"] = [(n, rng.random() < 0.4) for n in names]
        for n in names:
            sh["inst"][n] = rand_plain(rng, 1) if rng.random() < 0.8 else ("inner",)
    sh["no_drop"] = rng.random() < 0.1
    nf_weights = [4, 8, 16, 16, 14, 10, 8, 6, 6]
    if kind in ("named", "tuple"):
        n = rng.choices(range(9), weights=nf_weights)[0]
        sh["fields"] = rand_fields(rng, n, sh["params"], 0.35, False)
    elif kind == "enum":
        nv = rng.randint(1, 4)
        for vi in range(nv):
            vkind = rng.choice(["unit", "tuple", "named"])
            ign = rng.random() < 0.25
            n = 0 if vkind == "unit" else rng.choices(range(9), weights=[6, 14, 20, 20, 14, 8, 6, 3, 3])[0]
            sh["variants"].append({"name": "V%d" % vi, "vkind": vkind, "ignored": ign,
                                   "fields": rand_fields(rng, n, sh["params"], 0.3, ign)})
    # every declared parameter must be used
    fl = list(all_fields(sh))
    used = set()
    for f in fl:
        ty_params(f["ty"], used)
    for n, b in sh["params"]:
        if n not in used:
            if not fl:
                continue
            p = ("param", n)
            free = [f for f in fl if not ty_params(f["ty"], set())]
            if free:
                f = rng.choice(free)
                f["ty"] = rng.choice([p, ("opt", p), ("vec", p), ("tup", ("leaf",), p)] + ([("cc", p)] if b else []))
            else:
                f = rng.choice(fl)
                f["ty"] = ("tup", f["ty"], p)
            used.add(n)
    sh["params"] = [(n, b) for n, b in sh["params"] if n in used]
    sh["inst"] = {n: t for n, t in sh["inst"].items() if n in used}
    if rng.random() < 0.06:
        # derive(Finalize) alone on this one
        sh["fin_only"] = True
        sh["no_drop"] = False
    return sh


def get_shape(seed, idx):
    c = core()
    if idx < len(c):
        return c[idx]
    return random_shape(seed, idx)


# ---- probe shapes (compile-time observations) ----------------------------------------------------

def probe_kind_shapes():
    L = ("leaf",)
    out = []
    s = new_shape(0, "unit", "probe")
    out.append(("unit", s))
    s = new_shape(0, "tuple", "probe")
    s["fields"] = [mk_field(L, False), mk_field(L, True)]
    out.append(("tuple", s))
    s = new_shape(0, "named", "probe")
    s["fields"] = [mk_field(L, False), mk_field(L, True), mk_field(("vec", L), False)]
    out.append(("named", s))
    s = new_shape(0, "named", "probe")
    s["params"] = [("T", False), ("U", True)]
    s["inst"] = {"T": ("opt", L), "U": ("inner",)}
    s["fields"] = [mk_field(("param", "T"), False), mk_field(("cc", ("param", "U")), False), mk_field(L, True)]
    out.append(("generic", s))
    s = new_shape(0, "enum", "probe")
    s["variants"] = [
        {"name": "V0", "vkind": "unit", "ignored": False, "fields": []},
        {"name": "V1", "vkind": "tuple", "ignored": False, "fields": [mk_field(L, False), mk_field(L, True)]},
        {"name": "V2", "vkind": "named", "ignored": True, "fields": [mk_field(L, False)]},
        {"name": "V3", "vkind": "named", "ignored": False, "fields": [mk_field(("box", L), False)]},
    ]
    out.append(("enum", s))
    s = new_shape(0, "enum", "probe")
    s["params"] = [("T", False)]
    s["inst"] = {"T": L}
    s["variants"] = [
        {"name": "V0", "vkind": "tuple", "ignored": False, "fields": [mk_field(("param", "T"), False)]},
        {"name": "V1", "vkind": "named", "ignored": False, "fields": [mk_field(("opt", ("param", "T")), True)]},
    ]
    out.append(("generic_enum", s))
    # shapes in which nothing is left to trace: the Drop guard must be emitted all the same
    s = new_shape(0, "enum", "probe")
    s["variants"] = [
        {"name": "V0", "vkind": "unit", "ignored": True, "fields": []},
        {"name": "V1", "vkind": "tuple", "ignored": True, "fields": [mk_field(L, False)]},
        {"name": "V2", "vkind": "named", "ignored": True, "fields": [mk_field(L, False), mk_field(L, True)]},
    ]
    out.append(("enum_all_ignored", s))
    s = new_shape(0, "enum", "probe")
    s["variants"] = [{"name": "V0", "vkind": "tuple", "ignored": True, "fields": [mk_field(L, False)]}]
    out.append(("enum_single_ignored", s))
    s = new_shape(0, "named", "probe")
    s["fields"] = [mk_field(L, True), mk_field(L, True)]
    out.append(("named_all_ignored", s))
    s = new_shape(0, "tuple", "probe")
    s["fields"] = [mk_field(L, True)]
    out.append(("tuple_all_ignored", s))
    return out


def emit_probe(sh, mode, label):
    """mode 'a': derive + hand-written Drop (must be rejected with E0119); 'b': the same with
    #[rust_cc(unsafe_no_drop)] (must compile and run the destructor); 'c': the shape alone."""
    sh = dict(sh)
    sh["no_drop"] = False
    sh["fin_only"] = False
    lines = ["// generated by /verif/p_derive/gen.py: compile probe %s (%s)" % (mode.upper(), label),
             "#![allow(dead_code, unused_imports, unused_variables)]",
             "use c18pkg::*;", ""]
    lines += emit_def(sh, "P", force_no_drop=(mode == "b"))
    lines.append("")
    if mode in ("a", "b"):
        lines.append("impl%s Drop for P%s {" % (generics_decl(sh), generics_use(sh)))
        lines.append("    fn drop(&mut self) {")
        lines.append("        println!(\"C18_DROP_RAN\");")
        lines.append("    }")
        lines.append("}")
        lines.append("")
    cands = instances(sh, "P", random.Random("probe:" + label))
    inst = cands[0]
    for cand in cands:
        if cand["nfields"] > 0:
            inst = cand
            break
    lines.append("fn main() {")
    lines.append("    {")
    for p in inst["prelude"]:
        lines.append("        " + p)
    lines.append("        let v: %s = %s;" % (inst["type"], inst["expr"]))
    lines.append("        println!(\"C18_BUILT\");")
    lines.append("        drop(v);")
    lines.append("    }")
    lines.append("    println!(\"C18_MAIN_DONE\");")
    lines.append("}")
    return "\n".join(lines) + "\n"


# ---- emission of the run-time shards ---------------------------------------------------------------

def canon_hash(def_text, variant):
    h = hashlib.sha256((def_text + "|" + variant).encode()).digest()
    return int.from_bytes(h[:8], "big")


def rust_str(s):
    return "r####\"" + s + "\"####"


def emit_shape_module(sh, seed):
    idx = sh["idx"]
    name = "S%d" % idx
    rng = random.Random("c18inst:%d:%d" % (seed if sh["origin"] == "random" else 0, idx))
    def_lines = emit_def(sh, name)
    canon = "\n".join(emit_def(sh, "S")).replace(" /*IGN*/", "")
    if sh["params"]:
        canon += "\n// instantiated as S" + generics_inst(sh)
    insts = instances(sh, name, rng)
    out = ["mod s%d {" % idx, "    use super::*;"]
    out += ["    " + l for l in def_lines]
    out.append("    const DEF: &str = %s;" % rust_str(canon))
    out.append("    pub fn run(run: &mut Run) {")
    out.append("        if !run.want(%d) {" % idx)
    out.append("            return;")
    out.append("        }")
    meta_insts = []
    for n, inst in enumerate(insts):
        exp = ", ".join("(%d, %d, %s)" % ({"Z": 0, "R": 1, "C": 2, "Y": 3}[c], f, "true" if u else "false") for c, f, u in inst["leaves"])
        hsh = canon_hash(canon, inst["variant"])
        out.append("        {")
        out.append("            static CASE: Case = Case {")
        out.append("                shape: %d, kind: \"%s\", variant: \"%s\", nfields: %d, mask: \"%s\", def: DEF," % (
            idx, inst["kind"], inst["variant"], inst["nfields"], inst["mask"]))
        out.append("                expect: &[%s]," % exp)
        out.append("                nontrivial: %s, hash: %du64," % ("true" if inst["nontrivial"] else "false", hsh))
        out.append("            };")
        for p in inst["prelude"]:
            out.append("            " + p)
        out.append("            let v: %s = %s;" % (inst["type"], inst["expr"]))
        ext = "vec![%s]" % ", ".join("Box::new(%s) as Box<dyn Any>" % e for e in inst["ext"]) if inst["ext"] else "Vec::new()"
        if sh["fin_only"]:
            out.append("            run_finalize_only(run, &CASE, v, %s);" % ext)
        else:
            out.append("            run_traced(run, &CASE, v, %s);" % ext)
        out.append("        }")
        meta_insts.append({"variant": inst["variant"], "kind": inst["kind"], "nfields": inst["nfields"],
                           "mask": inst["mask"], "nontrivial": inst["nontrivial"], "leaves": len(inst["leaves"])})
    out.append("    }")
    out.append("}")
    return out, meta_insts, canon


def emit_shard(shapes, seed, label):
    lines = ["// generated by /verif/p_derive/gen.py: run-time shard %s (seed %d)" % (label, seed),
             "#![allow(dead_code, unused_imports, unused_variables, unused_mut)]",
             "use c18pkg::*;", ""]
    meta = []
    for sh in shapes:
        mod, mi, canon = emit_shape_module(sh, seed)
        lines += mod
        lines.append("")
        meta.append({"idx": sh["idx"], "origin": sh["origin"], "instances": mi, "def": canon,
                     "fin_only": sh["fin_only"], "has_nt": shape_has_nt(sh)})
    lines.append("fn main() {")
    lines.append("    let mut run = match Run::from_args(\"%s\") {" % label)
    lines.append("        Some(r) => r,")
    lines.append("        None => return,")
    lines.append("    };")
    for sh in shapes:
        lines.append("    s%d::run(&mut run);" % sh["idx"])
    lines.append("    run.finish();")
    lines.append("}")
    return "\n".join(lines) + "\n", meta


CARGO_TOML = """# generated by /verif/p_derive/gen.py
[package]
name = "c18pkg"
version = "0.0.0"
edition = "2021"
publish = false
autobins = true

[lib]
path = "src/lib.rs"

[dependencies]
rust-cc = { path = "%(repo)s", default-features = false, features = ["std", "derive", "finalization"] }
vcommon = { path = "%(vcommon)s" }

[profile.dev]
debug = 0
incremental = false

[workspace]
"""


def generate(seed, count, out, repo, vcommon=None, only_shape=None, only_probe=None, shards_p=6, shards_n=3,
             random_probes=3):
    vcommon = vcommon or os.path.join(os.path.dirname(HERE), "common")
    ncore = len(core())
    if only_shape is not None:
        idxs = [only_shape]
    elif only_probe is not None:
        idxs = []
    else:
        idxs = list(range(ncore + count))
    shapes = [get_shape(seed, i) for i in idxs]

    src = os.path.join(out, "src")
    if os.path.isdir(src):
        shutil.rmtree(src)
    os.makedirs(os.path.join(src, "bin"), exist_ok=True)
    with open(os.path.join(out, "Cargo.toml"), "w") as f:
        f.write(CARGO_TOML % {"repo": repo, "vcommon": vcommon})
    lock = os.path.join(repo, "Cargo.lock")
    if os.path.exists(lock):
        shutil.copy(lock, os.path.join(out, "Cargo.lock"))
    with open(os.path.join(HERE, "support_lib.rs")) as f:
        lib = f.read()
    with open(os.path.join(src, "lib.rs"), "w") as f:
        f.write(lib.replace("__MAXLEAF__", str(MAXLEAF)).replace("__NCORE__", str(len(core()))))

    meta = {"seed": seed, "count": count, "core": ncore, "repo": repo, "shards": [], "probes": []}
    pure = [s for s in shapes if not shape_has_nt(s)]
    nts = [s for s in shapes if shape_has_nt(s)]
    plan = []
    if only_shape is not None:
        plan.append(("c18pkg", "p0" if pure else "n0", shapes))
    elif only_probe is None:
        np_ = max(1, min(shards_p, len(pure)))
        nn_ = max(1, min(shards_n, len(nts))) if nts else 0
        for k in range(np_):
            plan.append(("c18pkg" if k == 0 else "shard_p%d" % k, "p%d" % k, pure[k::np_]))
        for k in range(nn_):
            plan.append(("shard_n%d" % k, "n%d" % k, nts[k::nn_]))
    have_main = False
    for binname, label, shs in plan:
        text, m = emit_shard(shs, seed, label)
        if binname == "c18pkg":
            path = os.path.join(src, "main.rs")
            have_main = True
        else:
            path = os.path.join(src, "bin", binname + ".rs")
        with open(path, "w") as f:
            f.write(text)
        meta["shards"].append({"bin": binname, "label": label, "class": label[0], "shapes": m})
    if not have_main:
        with open(os.path.join(src, "main.rs"), "w") as f:
            f.write("fn main() {}\n")

    # compile probes
    probes = []
    if only_shape is None:
        for kind, sh in probe_kind_shapes():
            probes.append((kind, sh))
        if only_probe is None or only_probe.startswith("r"):
            rng = random.Random("c18probes:%d" % seed)
            ncore_ = len(core())
            cand = [i for i in range(ncore_, ncore_ + max(count, 1))]
            rng.shuffle(cand)
            picked = 0
            for i in cand:
                if picked >= random_probes:
                    break
                sh = random_shape(seed, i)
                if sh["fin_only"] or sh["kind"] == "unit":
                    continue
                probes.append(("r%d" % i, sh))
                picked += 1
    for kind, sh in probes:
        if only_probe is not None and only_probe != kind:
            continue
        for mode in ("a", "b", "c"):
            binname = "probe_%s_%s" % (kind, mode)
            with open(os.path.join(src, "bin", binname + ".rs"), "w") as f:
                f.write(emit_probe(sh, mode, kind))
            meta["probes"].append({"bin": binname, "kind": kind, "mode": mode, "has_nt": shape_has_nt(sh),
                                   "def": "\n".join(emit_def(dict(sh, no_drop=False, fin_only=False), "P")).replace(" /*IGN*/", "")})
    with open(os.path.join(out, "meta.json"), "w") as f:
        json.dump(meta, f, indent=1)
    return meta


def main():
    ap = argparse.ArgumentParser()
    ap.add_argument("--seed", type=int, default=1)
    ap.add_argument("--count", type=int, default=60)
    ap.add_argument("--out", required=True)
    ap.add_argument("--repo", default="/repo")
    ap.add_argument("--vcommon", default=None)
    ap.add_argument("--only-shape", type=int, default=None)
    ap.add_argument("--only-probe", default=None)
    ap.add_argument("--shards-p", type=int, default=6)
    ap.add_argument("--shards-n", type=int, default=3)
    ap.add_argument("--random-probes", type=int, default=3)
    a = ap.parse_args()
    os.makedirs(a.out, exist_ok=True)
    meta = generate(a.seed, a.count, a.out, a.repo, a.vcommon, a.only_shape, a.only_probe, a.shards_p, a.shards_n,
                    a.random_probes)
    n = sum(len(s["shapes"]) for s in meta["shards"])
    sys.stderr.write("generated %d shapes in %d shards, %d probes -> %s\n" % (n, len(meta["shards"]), len(meta["probes"]), a.out))


if __name__ == "__main__":
    main()
