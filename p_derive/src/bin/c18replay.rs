//! Forwards argv to `python3 <this crate>/run.py`; stdout / exit status are those of run.py.
use std::process::{exit, Command};

fn main() {
    let args: Vec<String> = std::env::args().skip(1).collect();
    if args.iter().any(|a| a == "--noop") {
        return;
    }
    let script = concat!(env!("CARGO_MANIFEST_DIR"), "/run.py");
    match Command::new("python3").arg(script).args(&args).status() {
        Ok(st) => exit(st.code().unwrap_or(3)),
        Err(e) => {
            eprintln!("c18replay: cannot start python3 {}: {}", script, e);
            exit(3);
        }
    }
}
