"""C18: derive(Trace) traces every non-ignored field exactly once, never an ignored field / variant, and forbids a
hand-written Drop unless #[rust_cc(unsafe_no_drop)] is given; derive(Finalize) yields an empty finalizer.

The derive macros are observed where they run: inside rustc (exit status + JSON diagnostics of generated compile
probes) and through the code they emit (hit counters of probe leaves while the real collector traces generated
types). Everything is done by /verif/p_derive/run.py (generator: /verif/p_derive/gen.py), which prints the shard
protocol itself; this plan is the single step that runs it.
"""
import os
import sys

from driver import Step, BUILD, ROOT

LEVEL = "exploration"
SETUP_RUNS_STEPS = True  # builds happen inside the step (generated cargo package): setup runs it once to warm the caches

RULE = (
    "Cases are (generated type definition, variant) instances plus compile probes. Type definitions = a fixed "
    "enumerated core (unit struct; named and tuple structs with 0..4 fields under every ignore mask, once with "
    "ignored Leaf fields and once with non-Trace types on the ignored positions; all enums with 1..3 variants over "
    "{unit, tuple, named} x {ignored, kept}; derive(Finalize)-only types) plus N random shapes drawn from --seed "
    "(quick 60, thorough 600): structs with 0..8 fields, enums with 1..4 variants of mixed kinds, each field / "
    "variant independently #[rust_cc(ignore)], 0..2 type parameters (with and without bounds), field types Leaf, "
    "Inner, Cc<..>, Option/Vec/tuple/Box/RefCell/array nestings up to depth 2, type parameters, and non-Trace types "
    "(Cell<u32>, Rc<..>, &str, a local struct) on ignored positions only. Every variant of every enum is instantiated. "
    "Each instance is wrapped in a Holder that counts its own trace calls R, put in a self-cycle behind Cc and "
    "collected twice (while still owned, then as garbage); leaves on traced positions must show exactly R hits, "
    "leaves on ignored positions 0. Compile probes: per shape kind (unit, tuple, named, generic, enum, generic enum, "
    "plus random shapes) A = derive + impl Drop must fail with E0119 on Drop, B = unsafe_no_drop + impl Drop must "
    "compile and run the destructor once, C = shape alone must compile. An instance is NON-TRIVIAL iff its live "
    "variant (or struct) is not ignored and has >= 2 fields with at least one ignored and at least one traced; "
    "DISTINCT = distinct sha256 of the canonical definition text (type renamed to S, with its instantiation) + variant name."
)

ASSUMPTIONS = [
    "rustc / cargo / Miri as installed; the compiler's diagnostics codes (E0119, E0277) mean what they say",
    "the hand-written Trace / Finalize / Drop impls of the probe types (Leaf, Inner, Holder in p_derive/support_lib.rs) are correct monitors",
    "the collector calls Trace::trace of a buffered Cc's content at least once per collection (otherwise the run is reported inconclusive, not held)",
    "built-in Trace impls of Option / Vec / tuples / Box / RefCell / arrays visit each element once (that is C17's subject); a defect there would show here as a C18 hit mismatch on container fields only",
]


def plan(ctx):
    out = os.path.join(BUILD, "c18", ctx.tier)
    target = os.path.join(BUILD, "c18-target")
    os.makedirs(out, exist_ok=True)
    args = ["--tier", ctx.tier, "--seed", str(ctx.seed), "--out", out, "--repo", ctx.repo, "--target-dir", target]
    argv = [sys.executable or "python3", os.path.join(ROOT, "p_derive", "run.py")] + args
    st = Step("c18-%s" % ctx.tier, argv, tool="native", timeout=900 if ctx.quick else 3000, cwd=ROOT,
              crash_property="C18")
    # lets `./check C18 --replay FILE` rebuild and re-run: p_derive/src/bin/c18replay.rs forwards to run.py
    st.spec = {"crate": "p_derive", "binary": "c18replay", "features": "", "profile": "debug", "tool": "native",
               "miri_flags": "", "args": args, "env": {}}
    return [st]


def floors(ctx, evaluations, distinct, counters, sets):
    msgs = []
    need = {
        "instances": 400 if ctx.quick else 1500,
        "leaves_checked": 500 if ctx.quick else 3000,
        "probes_A_failed_as_expected": 6,
        "probes_B_ran_destructor": 6,
        "probes_C_compiled": 6,
        "miri_instances": 10 if ctx.quick else 200,
        "collector_finalized_holders": 100,
    }
    for k, v in need.items():
        if counters.get(k, 0) < v:
            msgs.append("%s = %d < %d" % (k, counters.get(k, 0), v))
    if distinct < 50:
        msgs.append("distinct non-trivial instances = %d < 50" % distinct)
    return msgs
