"""C09: see DESIGN.md section 3 C09."""
from _ccmon import standard_plan, floor_msgs, COMMON_ASSUMPTIONS, EVOLVE_NOTE, FAULT_NOTE

LEVEL = "exploration"
RULE = "histories are generated per shard from (seed, index) by harness/src/gen.rs (weights of mode C09: 35% weak operations (downgrade, clone, drop, Weak::new, re-downgrade), try_unwrap and new_cyclic raised) plus the directed corpus harness/src/directed.rs; each is executed against the real crate with all oracles on, followed by an epilogue that releases everything and collects until quiet. distinct = distinct expanded operation lists (FNV hash); non-trivial iff a weak side record outlived its box and a counting query was made on a Weak after the value's allocation was gone"
RULE += EVOLVE_NOTE + FAULT_NOTE
ASSUMPTIONS = COMMON_ASSUMPTIONS
FLOORS = {'oracle_weak_count_checks': 50000, 'side_record_outlived_box': 200, 'weak_queries_after_death': 200}


def plan(ctx):
    return standard_plan(ctx, "C09", mode="C09", after_faults=True, need_weak=True)


def floors(ctx, evaluations, distinct, counters, sets):
    return floor_msgs(counters, FLOORS)
