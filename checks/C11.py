"""C11: see DESIGN.md section 4 C11."""
from _ccmon import standard_plan, layout_steps, floor_msgs, COMMON_ASSUMPTIONS, EVOLVE_NOTE, FAULT_NOTE

LEVEL = "exploration"
RULE = 'histories are generated per shard from (seed, index) by harness/src/gen.rs (weights of mode C11: mark_alive / clone / weak traffic / try_unwrap raised so that objects enter and leave the buffer in every way; few finalizer scripts) plus the directed corpus harness/src/directed.rs; each is executed against the real crate with all oracles on, followed by an epilogue that releases everything and collects until quiet. distinct = distinct expanded operation lists (FNV hash); non-trivial iff the buffer reached length >= 3 and at least three different leave-operations (clone, mark_alive, downgrade, upgrade, unwrap, collection) were observed in the history'
RULE += EVOLVE_NOTE + FAULT_NOTE
ASSUMPTIONS = COMMON_ASSUMPTIONS
FLOORS = {'buffer_exact_membership_checks': 100000, 'allocated_bytes_checks': 100000, 'executions_count_checks': 100000}


def plan(ctx):
    # the layout grid contributes the buffering rules on managed values without drop glue (plain bytes, zero-sized)
    return standard_plan(ctx, "C11", mode="C11", after_faults=True) + layout_steps(ctx, "C11", ctx.quick)


def floors(ctx, evaluations, distinct, counters, sets):
    return floor_msgs(counters, FLOORS)
