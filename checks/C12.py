"""C12: see DESIGN.md section 4 C12."""
from _ccmon import standard_plan, floor_msgs, COMMON_ASSUMPTIONS, EVOLVE_NOTE, FAULT_NOTE

LEVEL = "exploration"
RULE = 'histories are generated per shard from (seed, index) by harness/src/gen.rs (weights of mode C12: finalizer / destructor / action scripts that call collect_cycles, Cc::new, try_unwrap, finalize_again; automatic collection in half of the histories) plus the directed corpus harness/src/directed.rs; each is executed against the real crate with all oracles on, followed by an epilogue that releases everything and collects until quiet. distinct = distinct expanded operation lists (FNV hash); non-trivial iff a collection was requested from a callback (a no-op request under a running collection, or a real nested collection under a plain drop)'
RULE += EVOLVE_NOTE + FAULT_NOTE
ASSUMPTIONS = COMMON_ASSUMPTIONS
FLOORS = {'is_tracing_samples': 100000, 'nested_noop_collects': 100, 'nested_real_collects': 100}


def plan(ctx):
    return standard_plan(ctx, "C12", mode="C12", after_faults=True)


def floors(ctx, evaluations, distinct, counters, sets):
    return floor_msgs(counters, FLOORS)
