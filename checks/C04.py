"""C04: see DESIGN.md section 3 C04."""
from _ccmon import standard_plan, floor_msgs, COMMON_ASSUMPTIONS, EVOLVE_NOTE, FAULT_NOTE

LEVEL = "exploration"
RULE = 'histories are generated per shard from (seed, index) by harness/src/gen.rs (weights of mode C04: drops, slot rewrites and moves raised, fewer collections) plus the directed corpus harness/src/directed.rs; each is executed against the real crate with all oracles on, followed by an epilogue that releases everything and collects until quiet. distinct = distinct expanded operation lists (FNV hash); non-trivial iff a last-owner drop happened outside a collection (cascade invariant evaluated) and at least 2 objects were reclaimed by reference counting'
RULE += EVOLVE_NOTE + FAULT_NOTE
ASSUMPTIONS = COMMON_ASSUMPTIONS
FLOORS = {'oracle_strong_count_checks': 100000, 'cascade_checks': 2000, 'objects_reclaimed_by_refcount': 2000}


def plan(ctx):
    return standard_plan(ctx, "C04", mode="C04", after_faults=True)


def floors(ctx, evaluations, distinct, counters, sets):
    return floor_msgs(counters, FLOORS)
