"""C16: reference counts saturate with a panic instead of wrapping (harness: p_ptr/src/bin/c16.rs)."""

LEVEL = "exploration"
EXHAUSTIVE = True

RULE = (
    "Enumerated grid of scenarios, each on ONE allocation of the real crate: acquisition route "
    "{clone, upgrade, alt(clone/upgrade)} to the strong limit 16382, {downgrade, wclone, wmixed(downgrade/Weak::clone)} to the "
    "weak limit 32767, 'both' (weak limit, then strong limit on the same object) x side record before the climb {no, yes} "
    "(where the route allows both) x already finalized {no, yes: died once and was resurrected by its finalizer} x cycle "
    "membership {none, self edge, two-object cycle}: 54 scenarios with all features, 27 without finalization, 6/3 without "
    "weak-ptrs. The limits are the ones of the statement, never read from the crate. Every acquisition runs under "
    "catch_unwind; strong_count / weak_count / Weak::strong_count / Weak::weak_count / already_finalized are compared before "
    "and after (every step natively; every 256th step and the 8 steps before the limit with --reduced under Miri). "
    "Boundary probes: the last 3 acquisitions below the limit, 5 attempts above it through the route's calls, one attempt "
    "through every other acquiring call, hysteresis rounds (drop k, exactly k succeed, 2 more attempts refuse), a "
    "collect_cycles() one below the limit, then death (all handles dropped but the cycle edge, collect until quiet): "
    "finalize count, drop count, allocated_bytes() back at the baseline, kept Weak handles dead. Two extra families: 'deadweak' "
    "(the weak limit reached on an allocation whose value is already gone) and 'garbagepool-fin' (16382 handles all owned by a container that "
    "forms a garbage cycle with the object; the finalizer run by the collection that reclaims them attempts clone number 16383). "
    "evaluations = boundary probes + post-mortem oracle evaluations. A scenario is NON-TRIVIAL when it reached every limit "
    "of its route and observed at least one panic of an over-limit call; DISTINCT = distinct (route, variant flags)."
)

ASSUMPTIONS = [
    "std::panic::catch_unwind + a silent panic hook observe the crate's panics faithfully",
    "the finalize / Drop counters of the harness payload (thread-local vectors) count every call the crate makes",
    "rust_cc::state::allocated_bytes() is used as the 'freed' witness natively; Miri (leak check, use-after-free) and ASan judge the memory itself",
    "Miri runs use --reduced (counter read back every 32nd step far from the limit, one hysteresis round, no collection at the limit); the boundary probes are identical",
    "limits 16382 / 32767 are taken from the property statement",
]

FULL = "finalization,auto-collect,weak-ptrs,cleaners"
FOUR = [FULL, "finalization", "weak-ptrs", ""]


def scenario_ids(features):
    fs = set(features.split(",")) if features else set()
    weak = "weak-ptrs" in fs or "cleaners" in fs
    fins = [0, 1] if "finalization" in fs else [0]
    out = []
    for cyc in ("none", "self", "pair"):
        for fin in fins:
            def add(route, sr):
                out.append("%s-sr%d-fin%d-cyc%s" % (route, sr, fin, cyc))
            add("clone", 0)
            if weak:
                add("clone", 1)
                add("upgrade", 1)
                add("alt", 1)
                add("downgrade", 0)
                add("downgrade", 1)
                add("wclone", 1)
                add("wmixed", 1)
                add("both", 1)
    return out


STRONG_ROUTES = ("clone", "upgrade", "alt")
WEAK_ROUTES = ("downgrade", "wclone", "wmixed")


def plan(ctx):
    steps = []

    def native(features, profile, tool="native", timeout=600):
        steps.append(ctx.step("c16-%s-%s-%s" % (tool, profile, features or "none"), "p_ptr", "c16", [],
                              features=features, profile=profile, tool=tool, timeout=timeout, crash_property="C16"))

    def miri(sid, timeout=1500):
        steps.append(ctx.step("c16-miri-%s" % sid, "p_ptr", "c16", ["--only", sid, "--reduced"],
                              features=FULL, tool="miri", timeout=timeout, crash_property="C16"))

    ids = scenario_ids(FULL)
    if ctx.quick:
        native(FULL, "debug")
        native(FULL, "release")
        native("", "debug")
        native("finalization", "debug")
        # one strong-limit and one weak-limit scenario under Miri; the seed rotates through the grid
        strong = [i for i in ids if i.split("-")[0] in ("alt", "upgrade", "clone") and "-sr1-" in i]
        weak = [i for i in ids if i.split("-")[0] in ("wmixed", "wclone", "downgrade")]
        miri(strong[(ctx.seed * 7) % len(strong)])
        miri(weak[(ctx.seed * 5) % len(weak)])
    else:
        for fs in FOUR:
            native(fs, "debug")
            native(fs, "release")
        native(FULL, "debug", tool="asan", timeout=1200)
        native(FULL, "release", tool="valgrind", timeout=1800)
        # longest first so that the 16 workers stay busy
        order = sorted(ids, key=lambda i: (0 if i.startswith("both") else 1 if i.split("-")[0] in WEAK_ROUTES else 2))
        for sid in order:
            miri(sid, timeout=2400)
    return steps


def floors(ctx, evaluations, distinct, counters, sets):
    msgs = []
    sr = set(sets.get("strong_routes", ())) - {"both"}
    wr = set(sets.get("weak_routes", ())) - {"both"}
    if len(sr) < 2:
        msgs.append("strong limit reached through %d routes (< 2): %s" % (len(sr), sorted(sr)))
    if len(wr) < 2:
        msgs.append("weak limit reached through %d routes (< 2): %s" % (len(wr), sorted(wr)))
    if counters.get("panics_observed", 0) < 1:
        msgs.append("no over-limit panic observed")
    if counters.get("objects_collected", 0) < 1:
        msgs.append("no object died after the climb")
    if counters.get("scenarios_completed", 0) < counters.get("scenarios_run", 0):
        msgs.append("%d of %d scenarios did not run to completion" % (
            counters.get("scenarios_run", 0) - counters.get("scenarios_completed", 0), counters.get("scenarios_run", 0)))
    return msgs
