"""C08: see DESIGN.md section 3 C08."""
from _ccmon import standard_plan, floor_msgs, COMMON_ASSUMPTIONS, EVOLVE_NOTE, FAULT_NOTE

LEVEL = "exploration"
RULE = 'histories are generated per shard from (seed, index) by harness/src/gen.rs (weights of mode C08: 30% weak operations at top level, finalizers / cleaning actions / destructors that upgrade; plus the differential mode C08diff (same history with and without its Weak operations must reclaim the same objects at every collect-until-quiet)) plus the directed corpus harness/src/directed.rs; each is executed against the real crate with all oracles on, followed by an epilogue that releases everything and collects until quiet. distinct = distinct expanded operation lists (FNV hash); non-trivial iff upgrade() returned both Some and None in the history and at least one upgrade was attempted from inside a callback'
RULE += EVOLVE_NOTE + FAULT_NOTE
ASSUMPTIONS = COMMON_ASSUMPTIONS
FLOORS = {'upgrades_some': 1000, 'upgrades_none': 1000, 'upgrade_site_finalizer': 50, 'upgrade_site_action': 20, 'differential_pairs': 100}


def plan(ctx):
    return standard_plan(ctx, "C08", mode="C08", after_faults=True, need_weak=True, extra_modes=('C08diff',))


def floors(ctx, evaluations, distinct, counters, sets):
    return floor_msgs(counters, FLOORS)
