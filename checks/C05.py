"""C05: see DESIGN.md section 3 C05."""
from _ccmon import standard_plan, native, evolve, NOFIN, NONE, floor_msgs, COMMON_ASSUMPTIONS, EVOLVE_NOTE, FAULT_NOTE

LEVEL = "exploration"
RULE = 'histories are generated per shard from (seed, index) by harness/src/gen.rs (weights of mode C05: 70% of objects have finalizer scripts of up to 3 actions (read neighbours, clear slots, clone into globals, allocate, upgrade weaks, collect, try_unwrap, finalize_again)) plus the directed corpus harness/src/directed.rs; each is executed against the real crate with all oracles on, followed by an epilogue that releases everything and collects until quiet. distinct = distinct expanded operation lists (FNV hash); non-trivial iff at least 2 finalizers ran within one collection and a finalizer with a non-empty script ran inside a collection'
RULE += EVOLVE_NOTE + FAULT_NOTE + ' The same histories also run on builds without the finalization feature, where any call of Finalize::finalize is a violation.'
ASSUMPTIONS = COMMON_ASSUMPTIONS
FLOORS = {'cb_finalize': 2000}


def plan(ctx):
    steps = standard_plan(ctx, "C05", mode="C05", after_faults=True, need_fin=True)
    # last clause of the statement: with the finalization feature disabled, finalize is never called at all (both
    # reclamation paths; the payload's Finalize impl reports any call)
    n = 6000 if ctx.quick else 60000
    for fs in (NOFIN, NONE) if ctx.quick else (NOFIN, NONE, "weak-ptrs", "auto-collect"):
        steps += native(ctx, "C05", "C05", fs, "debug", n, 1, tag="nofin-")
        steps += native(ctx, "C05", "C05", fs, "release", n, 1, tag="nofin-")
    steps += evolve(ctx, "C05", "C05", NOFIN, "release", n, 1)
    return steps


def floors(ctx, evaluations, distinct, counters, sets):
    return floor_msgs(counters, FLOORS)
