"""C01: see DESIGN.md section 3 C01."""
from _ccmon import standard_plan, floor_msgs, COMMON_ASSUMPTIONS, EVOLVE_NOTE, FAULT_NOTE

LEVEL = "exploration"
RULE = 'histories are generated per shard from (seed, index) by harness/src/gen.rs (weights of mode C01: collections every few operations, automatic collection in half of the histories, finalizers that clear slots / resurrect) plus the directed corpus harness/src/directed.rs; each is executed against the real crate with all oracles on, followed by an epilogue that releases everything and collects until quiet. distinct = distinct expanded operation lists (FNV hash); non-trivial iff at least one collection ran and at least one object was reclaimed by a collector pass while the program still held other objects (the reachability walk ran after it)'
RULE += EVOLVE_NOTE + FAULT_NOTE
ASSUMPTIONS = COMMON_ASSUMPTIONS
FLOORS = {'objects_reclaimed_by_collector': 1000, 'oracle_objects_walked': 100000, 'collections_observed': 1000}


def plan(ctx):
    return standard_plan(ctx, "C01", mode="C01", after_faults=True)


def floors(ctx, evaluations, distinct, counters, sets):
    return floor_msgs(counters, FLOORS)
