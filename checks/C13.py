"""C13: see DESIGN.md section 4 C13."""
from _ccmon import standard_plan, floor_msgs, COMMON_ASSUMPTIONS

LEVEL = "exploration"
RULE = 'histories are generated per shard from (seed, index) by harness/src/gen.rs (weights of mode C13: 14% try_unwrap on registers / globals whose objects were buffered, collected around, finalized, downgraded) plus the directed corpus harness/src/directed.rs; each is executed against the real crate with all oracles on, followed by an epilogue that releases everything and collects until quiet. distinct = distinct expanded operation lists (FNV hash); non-trivial iff try_unwrap returned Ok at least once in the history (Err results are checked as well)'
ASSUMPTIONS = COMMON_ASSUMPTIONS
FLOORS = {'try_unwrap_ok': 500, 'try_unwrap_err': 500}


def plan(ctx):
    return standard_plan(ctx, "C13", mode="C13")


def floors(ctx, evaluations, distinct, counters, sets):
    return floor_msgs(counters, FLOORS)
