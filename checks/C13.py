"""C13: see DESIGN.md section 4 C13."""
from _ccmon import standard_plan, layout_steps, floor_msgs, COMMON_ASSUMPTIONS, EVOLVE_NOTE, FAULT_NOTE

LEVEL = "exploration"
RULE = 'histories are generated per shard from (seed, index) by harness/src/gen.rs (weights of mode C13: 14% try_unwrap on registers / globals whose objects were buffered, collected around, finalized, downgraded) plus the directed corpus harness/src/directed.rs; each is executed against the real crate with all oracles on, followed by an epilogue that releases everything and collects until quiet. distinct = distinct expanded operation lists (FNV hash); plus the layout grid harness/src/bin/layouts.rs: 48 payload layouts (size {0,1,3,8,24,100,1000,4096} x alignment {1,2,8,64,512,4096}, each its own monomorphisation) x up to 10 scenarios (plain drop, collected cycle, try_unwrap fresh / buffered / shared / with side record / with a live Weak / after resurrection, Weak outliving the value, new_cyclic, new_cyclic whose closure panics), enumerated; histories are non-trivial iff try_unwrap returned Ok at least once in the history (Err results are checked as well)'
RULE += EVOLVE_NOTE + FAULT_NOTE
ASSUMPTIONS = COMMON_ASSUMPTIONS
FLOORS = {'scenarios': 400, 'try_unwrap_ok': 500, 'try_unwrap_err': 500}


def plan(ctx):
    return standard_plan(ctx, "C13", mode="C13", after_faults=True) + layout_steps(ctx, "C13", ctx.quick)


def floors(ctx, evaluations, distinct, counters, sets):
    return floor_msgs(counters, FLOORS)
