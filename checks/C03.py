"""C03: see DESIGN.md section 3 C03."""
from _ccmon import standard_plan, layout_steps, floor_msgs, COMMON_ASSUMPTIONS, EVOLVE_NOTE, FAULT_NOTE

LEVEL = "exploration"
RULE = 'histories are generated per shard from (seed, index) by harness/src/gen.rs (weights of mode C03: try_unwrap, new_cyclic and weak traffic raised; every allocation event of the crate is matched alloc -> drop -> dealloc) plus the directed corpus harness/src/directed.rs; each is executed against the real crate with all oracles on, followed by an epilogue that releases everything and collects until quiet. distinct = distinct expanded operation lists (FNV hash); plus the layout grid harness/src/bin/layouts.rs: 48 payload layouts (size {0,1,3,8,24,100,1000,4096} x alignment {1,2,8,64,512,4096}, each its own monomorphisation) x up to 10 scenarios (plain drop, collected cycle, try_unwrap fresh / buffered / shared / with side record / with a live Weak / after resurrection, Weak outliving the value, new_cyclic, new_cyclic whose closure panics), enumerated; histories are non-trivial iff both reclamation paths (plain drop and collector) occurred and (with weak-ptrs) at least one weak side record was allocated'
RULE += EVOLVE_NOTE + FAULT_NOTE
ASSUMPTIONS = COMMON_ASSUMPTIONS
FLOORS = {'scenarios': 400, 'zst_scenarios': 20, 'overaligned_scenarios': 100, 'allocator_tracked_frees': 10000, 'objects_reclaimed_by_refcount': 1000, 'objects_reclaimed_by_collector': 500}


def plan(ctx):
    return standard_plan(ctx, "C03", mode="C03", after_faults=True) + layout_steps(ctx, "C03", ctx.quick)


def floors(ctx, evaluations, distinct, counters, sets):
    return floor_msgs(counters, FLOORS)
