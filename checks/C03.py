"""C03: see DESIGN.md section 3 C03."""
from _ccmon import standard_plan, floor_msgs, COMMON_ASSUMPTIONS

LEVEL = "exploration"
RULE = 'histories are generated per shard from (seed, index) by harness/src/gen.rs (weights of mode C03: try_unwrap, new_cyclic and weak traffic raised; every allocation event of the crate is matched alloc -> drop -> dealloc) plus the directed corpus harness/src/directed.rs; each is executed against the real crate with all oracles on, followed by an epilogue that releases everything and collects until quiet. distinct = distinct expanded operation lists (FNV hash); non-trivial iff both reclamation paths (plain drop and collector) occurred and (with weak-ptrs) at least one weak side record was allocated'
ASSUMPTIONS = COMMON_ASSUMPTIONS
FLOORS = {'allocator_tracked_frees': 10000, 'objects_reclaimed_by_refcount': 1000, 'objects_reclaimed_by_collector': 500}


def plan(ctx):
    return standard_plan(ctx, "C03", mode="C03")


def floors(ctx, evaluations, distinct, counters, sets):
    return floor_msgs(counters, FLOORS)
