"""C02: see DESIGN.md section 3 C02."""
from _ccmon import standard_plan, floor_msgs, COMMON_ASSUMPTIONS, EVOLVE_NOTE

LEVEL = "exploration"
RULE = 'histories are generated per shard from (seed, index) by harness/src/gen.rs (weights of mode C02: cycle motifs (self loop, k-ring, rings sharing a node, ring + tail, ring pinned through a hidden slot) followed by un-buffering traffic, frequent collect-until-quiet) plus the directed corpus harness/src/directed.rs; each is executed against the real crate with all oracles on, followed by an epilogue that releases everything and collects until quiet. distinct = distinct expanded operation lists (FNV hash); non-trivial iff the collector (not plain reference counting) reclaimed at least 2 objects in the history and the collect-until-quiet set comparison ran'
RULE += EVOLVE_NOTE
ASSUMPTIONS = COMMON_ASSUMPTIONS
FLOORS = {'c02_quiet_checks': 1000, 'objects_reclaimed_by_collector': 2000}


def plan(ctx):
    return standard_plan(ctx, "C02", mode="C02")


def floors(ctx, evaluations, distinct, counters, sets):
    return floor_msgs(counters, FLOORS)
