"""C06: see DESIGN.md section 3 C06."""
from _ccmon import standard_plan, floor_msgs, COMMON_ASSUMPTIONS, EVOLVE_NOTE

LEVEL = "exploration"
RULE = "histories are generated per shard from (seed, index) by harness/src/gen.rs (weights of mode C06: 80% of objects have finalizers, 80% of those resurrect (self via Weak::upgrade, neighbours via clone / move, into globals or live objects' slots)) plus the directed corpus harness/src/directed.rs; each is executed against the real crate with all oracles on, followed by an epilogue that releases everything and collects until quiet. distinct = distinct expanded operation lists (FNV hash); non-trivial iff a finalizer resurrected at least one object and the collector reclaimed at least one object in the same history"
RULE += EVOLVE_NOTE
ASSUMPTIONS = COMMON_ASSUMPTIONS
FLOORS = {'resurrections': 500, 'c02_quiet_checks': 500}


def plan(ctx):
    return standard_plan(ctx, "C06", mode="C06", need_fin=True)


def floors(ctx, evaluations, distinct, counters, sets):
    return floor_msgs(counters, FLOORS)
