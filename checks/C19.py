"""C19: see DESIGN.md section 4 C19 (per-thread independence, thread teardown)."""
from _ccmon import floor_msgs, COMMON_ASSUMPTIONS, NOFIN, NONE, FINONLY, sd
from driver import FULL, ALL_FEATURE_SETS

LEVEL = "exploration"
RULE = ("(1) thread workload (harness/src/threads.rs): N in {2, 4, 8, 16} OS threads, each running its own interpreter + shadow model on its own "
        "random histories with every single-thread oracle on (any hit is a C19 violation here), yields injected between operations, and "
        "barrier-delimited idle windows in which half of the threads stand still while the others keep collecting: the idle thread's "
        "allocated_bytes / executions_count / buffered_objects_count / configuration / byte threshold must not move; the instrumented allocator "
        "flags a block allocated on one thread and released on another. The same binary is run under ThreadSanitizer (data races) and, with "
        "2-3 threads and short histories, under Miri (data races + UB; its scheduler picks the interleavings). "
        "(2) teardown matrix (harness/src/bin/teardown.rs): {user thread-local registered before / after the collector's} x {unique object, "
        "buffered object, garbage cycle, buffered cycle still held, object with Weak + side record, object owning a Cleaner with a pending "
        "action} x {spawned thread exits, main thread returns (child process)} x {what the user's own thread-local destructor does when it runs, "
        "possibly after the collector's thread-locals are gone: nothing, collect_cycles + churn + try_unwrap, allocations of cycles, allocations with "
        "auto-collect on and a buffered-objects threshold set, downgrade / upgrade / new_cyclic, Cleaner::register + clean; played in child processes, "
        "the late destructor announces itself so that the run shows it happened; state::is_tracing() must not read true afterwards}: "
        "no crash / abort / non-zero exit, no payload dropped twice, no "
        "action run twice, no allocator double free, no sanitizer report. evaluations = histories + cells; distinct non-trivial = distinct "
        "(thread count, thread, operation list) histories in which a collector pass reclaimed something, plus distinct teardown cells; "
        "schedules are those that occurred (coverage.sets.schedules), not an enumeration.")
ASSUMPTIONS = COMMON_ASSUMPTIONS + [
    "interleavings are the ones the OS scheduler / Miri's scheduler produced on this run; 'all interleavings' is approximated, not enumerated",
    "glibc runs thread-local destructors in reverse order of registration; the two orders are produced by touching the user's or the collector's thread-locals first",
]


def plan(ctx):
    p = "C19"
    steps = []
    def threads(features, profile, n, shard, rounds, count, tool="native", extra=(), timeout=900, flags=""):
        args = ["--mode", "C19", "--gen", "threads", "--seed", str(sd(ctx, "threads", features, profile, tool, n)), "--threads", str(n), "--rounds", str(rounds),
                "--count", str(count), "--shard", str(shard), "--props", p, "--alloc", "track"] + list(extra)
        return ctx.step("%s-threads%d-%s-%s-%d" % (tool, n, features.replace(",", "+") or "none", profile, shard), "harness", "ccmon", args, features=features,
                        profile=profile, tool=tool, timeout=timeout, crash_property=p, miri_flags=flags)
    def teardown(features, profile, tool="native", extra=(), name="", timeout=600, flags=""):
        return ctx.step("%s-teardown-%s-%s%s" % (tool, features.replace(",", "+") or "none", profile, name), "harness", "teardown", list(extra), features=features,
                        profile=profile, tool=tool, timeout=timeout, crash_property=p, miri_flags=flags)
    cells = ["%s/%s" % (o, b) for o in ("user_first", "collector_first") for b in ("unique", "buffered", "cycle", "cycle_buffered_held", "weak", "cleaner")]
    if ctx.quick:
        for n in (2, 4, 8, 16):
            steps.append(threads(FULL, "debug", n, 0, 6, 60))
            steps.append(threads(FULL, "release", n, 1, 6, 120))
        steps.append(threads(NOFIN, "debug", 4, 0, 4, 40))
        steps.append(threads(NONE, "debug", 4, 0, 4, 40))
        steps.append(threads(FULL, "debug", 4, 2, 3, 20, tool="tsan"))
        # (Miri on the thread workload costs minutes per history with its race detector on: thorough tier only; quick
        #  relies on ThreadSanitizer for races and on Miri for the teardown cells, which spawn and join threads)
        steps.append(teardown(FULL, "debug", extra=["--repeat", "3"]))
        steps.append(teardown(FULL, "release", extra=["--repeat", "3"]))
        steps.append(teardown(NONE, "debug"))
        steps.append(teardown(FULL, "debug", tool="miri", extra=["--no-children"], name="-threadcells", flags="-Zmiri-ignore-leaks"))
        for c in cells[::3]:
            steps.append(teardown(FULL, "debug", tool="miri", extra=["--main-cell", c], name="-main-" + c.replace("/", "_"), flags="-Zmiri-ignore-leaks"))
    else:
        for fs in ALL_FEATURE_SETS:
            main = fs == FULL
            for n in ((2, 4, 8, 16) if main else (4,)):
                for profile in ("debug", "release"):
                    for sh in range(3 if main else 1):
                        steps.append(threads(fs, profile, n, sh, 12, 400 if main else 100, timeout=3000))
            steps.append(teardown(fs, "debug", extra=["--repeat", "5"]))
            steps.append(teardown(fs, "release", extra=["--repeat", "5"]))
        for n in (2, 4, 8, 16):
            steps.append(threads(FULL, "debug", n, 5, 6, 60, tool="tsan", timeout=3000))
        steps.append(teardown(FULL, "debug", tool="tsan", extra=["--repeat", "3"]))
        steps.append(teardown(FULL, "debug", tool="asan", extra=["--repeat", "3"]))
        steps.append(teardown(FULL, "release", tool="valgrind", extra=["--no-children"]))
        for c in cells:
            steps.append(teardown(FULL, "release", tool="valgrind", extra=["--main-cell", c], name="-main-" + c.replace("/", "_")))
            steps.append(teardown(FULL, "debug", tool="miri", extra=["--main-cell", c], name="-main-" + c.replace("/", "_"), flags="-Zmiri-ignore-leaks", timeout=1200))
        steps.append(teardown(FULL, "debug", tool="miri", extra=["--no-children"], name="-threadcells", flags="-Zmiri-ignore-leaks", timeout=1200))
        for i in range(16):
            steps.append(threads(FULL, "debug", 2 + i % 2, 20 + i, 1, 1, tool="miri", extra=["--min-ops", "5", "--max-ops", "10", "--no-state-hash", "--window-count", "1"], flags="-Zmiri-ignore-leaks", timeout=3000))
    return steps


def floors(ctx, evaluations, distinct, counters, sets):
    msgs = floor_msgs(counters, {"idle_windows_checked": 50, "thread_runs": 20, "child_processes": 100, "late_destructors_observed": 90, "objects_reclaimed_by_collector": 1000})
    for n in ("2", "4", "8", "16"):
        if n not in sets.get("thread_counts", set()):
            msgs.append("no run with %s threads" % n)
    return msgs
