"""C10: see DESIGN.md section 3 C10."""
from _ccmon import standard_plan, floor_msgs, COMMON_ASSUMPTIONS, EVOLVE_NOTE

LEVEL = "exploration"
RULE = 'histories are generated per shard from (seed, index) by harness/src/gen.rs (weights of mode C10: 30% cleaner operations (register with 0..2-action scripts capturing Cc / Weak, clean, drop Cleanable), owners released by reference counting and inside collected cycles) plus the directed corpus harness/src/directed.rs; each is executed against the real crate with all oracles on, followed by an epilogue that releases everything and collects until quiet. distinct = distinct expanded operation lists (FNV hash); non-trivial iff a Cleaner was dropped and at least 2 cleaning actions ran in the history'
RULE += EVOLVE_NOTE
ASSUMPTIONS = COMMON_ASSUMPTIONS
FLOORS = {'actions_run': 2000, 'cleaner_drops': 2000}


def plan(ctx):
    return standard_plan(ctx, "C10", mode="C10", need_cleaners=True)


def floors(ctx, evaluations, distinct, counters, sets):
    return floor_msgs(counters, FLOORS)
