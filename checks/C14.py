"""C14: see DESIGN.md section 4 C14 (fault enumeration inside new_cyclic)."""
from _ccmon import native, miri, evolve, floor_msgs, COMMON_ASSUMPTIONS, EVOLVE_NOTE
from driver import FULL, ALL_FEATURE_SETS

LEVEL = "fault_enumeration"
RULE = ("histories of mode C14 (16% new_cyclic with closure scripts: clone / store the Weak, upgrade it, allocate, collect; automatic collection on in "
        "70% so that new_cyclic's own allocation starts collections with garbage buffered) and the directed corpus. Inside every closure the "
        "provided Weak must report strong_count 0 and refuse to upgrade; afterwards saved clones must upgrade to the returned Cc. Each history is "
        "then re-run once per fault point that lies inside a new_cyclic call (the closure itself, and every trace / finalize / drop / action "
        "invocation of a collection started by that call): no payload callback may run on a value that was never constructed (canary), the box "
        "and side record must be released, saved Weak clones must stay dead. evaluations = runs; distinct = distinct (history, fault point) "
        "pairs and distinct panic-free histories; non-trivial iff the history executed at least one new_cyclic call.")
RULE += EVOLVE_NOTE
ASSUMPTIONS = COMMON_ASSUMPTIONS


def plan(ctx):
    p = "C14"
    weak_sets = [fs for fs in ALL_FEATURE_SETS if "weak-ptrs" in fs.split(",")]
    steps = []
    if ctx.quick:
        steps += native(ctx, p, "C14", FULL, "debug", 3000, 5, faults="single")
        steps += native(ctx, p, "C14", FULL, "release", 3000, 4, faults="single")
        steps += native(ctx, p, "C14", FULL, "debug", 0, 1, faults="single", gen="directed")
        steps += native(ctx, p, "C14", "auto-collect,weak-ptrs,cleaners", "debug", 1000, 1, faults="single")
        steps += native(ctx, p, "C14", "finalization,weak-ptrs", "debug", 1000, 1, faults="single")
        steps += evolve(ctx, p, "C14", FULL, "release", 8000, 2, faults="single")
        steps += evolve(ctx, p, "C14", FULL, "debug", 4000, 1, faults="single")
        steps += miri(ctx, p, "C14", FULL, 24, 12, faults="single", extra=["--max-fault-points", "3", "--max-ops", "16"])
    else:
        for fs in weak_sets:
            main = fs == FULL
            for profile in ("debug", "release"):
                steps += native(ctx, p, "C14", fs, profile, 60000 if main else 8000, 6 if main else 1, faults="single", timeout=3000)
            steps += native(ctx, p, "C14", fs, "debug", 0, 1, faults="single", gen="directed", timeout=3000)
        steps += evolve(ctx, p, "C14", FULL, "release", 150000, 10, faults="single", timeout=3000)
        steps += evolve(ctx, p, "C14", FULL, "debug", 50000, 4, faults="single", timeout=3000)
        steps += evolve(ctx, p, "C14", "auto-collect,weak-ptrs,cleaners", "release", 50000, 2, faults="single", timeout=3000)
        steps += native(ctx, p, "C14", FULL, "release", 3000, 6, faults="single", tool="asan", alloc="track", timeout=3000)
        steps += native(ctx, p, "C14", FULL, "release", 200, 4, faults="single", tool="valgrind", alloc="track", timeout=3000)
        steps += miri(ctx, p, "C14", FULL, 256, 32, faults="single", extra=["--max-fault-points", "40"], timeout=2400)
    return steps


def floors(ctx, evaluations, distinct, counters, sets):
    return floor_msgs(counters, {"new_cyclic_ok": 1000, "new_cyclic_unwound": 200, "fault_points_enumerated": 500})
