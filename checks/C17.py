"""C17: built-in Trace / Finalize impls visit each owned Cc exactly once (runtime monitoring).

Harness: /verif/p_containers (binary c17). See p_containers/src/{probe,cases,special}.rs for payloads and oracles.

Deviations from DESIGN.md section "C17" (recorded here because this check owns only its own files):
 * `Holder<C>` is type-erased (`Node` owning a `Box<dyn Probe>`): a leaf must point back at its holder and
   `Holder<C>` with `C` mentioning `Cc<Holder<C>>` is an infinite type. `Node::trace` calls the container type's own
   `Trace::trace` through the vtable, never the crate's impl for `Box`.
 * Counters live in thread-local tables indexed by leaf / node id (readable after the objects are gone).
 * The direct `Finalize::finalize(&container)` oracle runs under every feature set (the impls are not cfg-gated);
   only the collector-driven oracle (leaf finalize count == holder finalize count) needs `finalization`.
 * ManuallyDrop contents are released by `Node::drop` only when they own no Cc (Trace contract); cases in which a
   ManuallyDrop content is forgotten while owning heap memory or a reference to the survivor are not run under Miri.
 * A panic escaping collect_cycles() (debug assertion of the collector when a Cc is over-reported) is caught, reported
   as oracle `collector_panic`, and stops that shard.
"""
from driver import FULL

LEVEL = "exploration"
EXHAUSTIVE = True

RULE = (
    "Cases are ENUMERATED (macro-generated grid, no sampling): every std container type rust-cc implements Trace for, "
    "instantiated with the counting probe `Leaf` at every element position: tuples of arity 1..12, arrays [Leaf; 0..=32], "
    "Vec<Leaf> and Box<[Leaf]> of length 0..=40, Box, Option (Some / None), Result (Ok / Err, different types per variant), "
    "RefCell, ManuallyDrop, AssertUnwindSafe, PhantomData, one heterogeneous 8-tuple, all 144 two-level nestings "
    "outer<inner> of the 12 constructors {tuple2, array3, vec3, boxslice2, box, some, none, ok, err, refcell, manuallydrop, "
    "assertunwindsafe}, and (Leaf, Weak, Leaf) / (Leaf, Cleaner, Leaf) / (Leaf, Cleanable) when the features exist. "
    "Per container instance the modes are: hits (holder made garbage by a monitor-owned edge; after collect_cycles() every "
    "leaf trace count == R, the number of times the holder, hence the container, was traced; nothing else counted; with "
    "finalization every leaf finalized as often as the holder), cycle/p for EVERY position p (the only edge back to the "
    "holder is owned by the leaf at p: must be reclaimed, allocated_bytes() back to the case baseline, hits == R), "
    "survive/p for EVERY position p (object owned through p and by a local must survive the collection of its garbage "
    "holder: not dropped, canary intact, readable, then released), finalize (Finalize::finalize(&container) called "
    "directly: every leaf exactly once), and for every container containing a RefCell, with the cells shared- and "
    "mut-borrowed across the collection: bhits (leaves behind a borrowed cell 0 hits, others R), bcycle/p (cycle through a "
    "borrowed cell is NOT reclaimed and reports nothing; after the borrow ends it is reclaimed with hits == R), bfinalize. "
    "Weak / Cleanable targets: weaktarget, weakself, cleanabletarget. "
    "The native steps run the whole grid (5853 cases with all features) in one process per feature set / profile; the same "
    "grid (thorough) or a sub-grid (quick; which 1/7 of the nestings is chosen by the seed) is replayed under Miri in shards, "
    "and (thorough) under ASan and valgrind. evaluations = cases executed, summed over all steps. "
    "A case is NON-TRIVIAL iff its container instance holds >= 2 leaves or it is a position-specific cycle / survive / "
    "bcycle case. Two cases are DISTINCT iff they differ in (container type name incl. length / arity, number of leaves, "
    "mode, position, borrow mode); the hash does not include feature set, profile or tool, so re-executions of the same "
    "case under another configuration are not counted twice."
)

ASSUMPTIONS = [
    "The hand-written Trace / Finalize impls of the probes (Leaf, Node in p_containers/src/probe.rs) are correct: Node::trace "
    "calls the container's Trace::trace exactly once per invocation, Leaf::trace counts and forwards to the one Cc it owns.",
    "The collector calls Trace::trace of a buffered / reachable object at least once per collection (else R == 0 and the "
    "case is counted as vacuous; the floor requires 0 vacuous cases).",
    "rust_cc::state::allocated_bytes() is exact (property C11) and collect_cycles() reclaims garbage cycles whose members "
    "are reported correctly (property C02); both are only used on graphs of <= 42 objects.",
    "The quantifier 'every length' is bounded as stated: Vec / boxed slice length <= 40, nesting depth 2 with 2-3 element "
    "instances; deeper nestings and other element types are not explored.",
    "ManuallyDrop: contents that still own a Cc when their owner dies are forgotten by design (probe.rs); the cases that "
    "thereby leak system-heap memory or pin the survivor (34 + 6 of the grid) are not run under Miri's leak checker, only "
    "natively / ASan (leak detection off) / valgrind (leak check off).",
    "Miri, ASan and valgrind report memory errors of the executions they are given; absence of a report is not a proof.",
]

ALL4 = [FULL, "finalization", "weak-ptrs", ""]


def plan(ctx):
    steps = []
    crate, binary = "p_containers", "c17"
    if ctx.quick:
        steps.append(ctx.step("native-debug-full", crate, binary, [], features=FULL, profile="debug", timeout=300, crash_property="C17"))
        steps.append(ctx.step("native-release-full", crate, binary, [], features=FULL, profile="release", timeout=300, crash_property="C17"))
        steps.append(ctx.step("native-debug-none", crate, binary, [], features="", profile="debug", timeout=300, crash_property="C17"))
        nsh = 13
        grid = ["--arr-max", "4", "--vec-max", "5", "--slice-max", "3", "--nest-stride", "7", "--nest-offset", str(ctx.seed % 7)]
        for i in range(nsh):
            steps.append(ctx.step("miri-full-%d" % i, crate, binary, grid + ["--shard", str(i), "--nshards", str(nsh)],
                                  features=FULL, tool="miri", timeout=600, crash_property="C17"))
    else:
        for fs in ALL4:
            for prof in ("debug", "release"):
                steps.append(ctx.step("native-%s-%s" % (prof, fs or "none"), crate, binary, [], features=fs, profile=prof,
                                      timeout=600, crash_property="C17"))
        for fs in (FULL, ""):
            steps.append(ctx.step("asan-%s" % (fs or "none"), crate, binary, [], features=fs, profile="debug", tool="asan",
                                  timeout=900, crash_property="C17"))
        steps.append(ctx.step("asan-release-full", crate, binary, [], features=FULL, profile="release", tool="asan",
                              timeout=900, crash_property="C17"))
        for fs in (FULL, ""):
            steps.append(ctx.step("valgrind-release-%s" % (fs or "none"), crate, binary, [], features=fs, profile="release",
                                  tool="valgrind", timeout=1500, crash_property="C17"))
        # whole grid under Miri with every feature on (the leak checker stays on)
        nsh = 40
        for i in range(nsh):
            steps.append(ctx.step("miri-full-%d" % i, crate, binary, ["--shard", str(i), "--nshards", str(nsh)],
                                  features=FULL, tool="miri", timeout=1800, crash_property="C17"))
        # no finalization / no weak pointers: different collector paths; sub-grid
        nsh = 8
        grid = ["--arr-max", "8", "--vec-max", "8", "--slice-max", "8", "--nest-stride", "5", "--nest-offset", str(ctx.seed % 5)]
        for i in range(nsh):
            steps.append(ctx.step("miri-none-%d" % i, crate, binary, grid + ["--shard", str(i), "--nshards", str(nsh)],
                                  features="", tool="miri", timeout=1800, crash_property="C17"))
    return steps


KINDS = ["tuple", "array", "vec", "boxslice", "box", "option_some", "option_none", "result_ok", "result_err", "refcell",
         "manuallydrop", "assertunwindsafe", "phantomdata", "nest", "weak", "cleaner", "cleanable"]


def floors(ctx, evaluations, distinct, counters, sets):
    msgs = []
    kinds = sets.get("container_kinds", set())
    missing = [k for k in KINDS if k not in kinds]
    if missing:
        msgs.append("container kinds never executed: %s" % ",".join(missing))
    if len(sets.get("nestings", ())) < 144:
        msgs.append("only %d of the 144 two-level nestings were executed" % len(sets.get("nestings", ())))
    # the full grid with all features has 5853 cases (5610 non-trivial); without finalization/weak/cleaners 5834 (5594)
    if distinct < 5610:
        msgs.append("distinct non-trivial cases %d < 5610 (the enumerated grid was not covered)" % distinct)
    if counters.get("vacuous_cases", 0) != 0:
        msgs.append("%d cases in which the collector never traced the holder (nothing was observed)" % counters["vacuous_cases"])
    for name, floor in (("cycles_reclaimed", 2600), ("survival_checks", 2500), ("borrowed_checks", 100),
                        ("finalize_forward_checks", 300), ("leaves_checked", 100000)):
        if counters.get(name, 0) < floor:
            msgs.append("%s = %d < %d" % (name, counters.get(name, 0), floor))
    if "miri" not in sets.get("tools", set()):
        msgs.append("no Miri shard reported")
    return msgs
