"""C15: see DESIGN.md section 4 C15 (automatic collection policy)."""
from _ccmon import native, miri, floor_msgs, COMMON_ASSUMPTIONS, NOFIN, sd
from driver import FULL

LEVEL = "exploration"
RULE = ("two workloads, both judged at every Cc::new / new_cyclic / first Cleaner::register by the same monitor: before the call it records "
        "auto_collect, allocated_bytes(), buffered_objects_count(), the buffered threshold and the byte threshold (hook); after the call it "
        "compares the number of collections the creation itself started (executions_count() delta minus collections requested by callbacks) "
        "with [auto && (allocated > threshold || buffered > buffered_threshold)], and after every normally returning collection it checks the "
        "threshold post-conditions of the statement on the state at the end of the collection. (1) policy workload (harness/src/policy.rs): "
        "rounds of 400 steps allocating payloads of 11 sizes (0..4096 bytes), releasing bursts, creating garbage cycles, changing "
        "adjustment_percent in {0, 1e-9, 0.1, 0.5, 0.9, 1}, the buffered threshold in {None, 1, 2, 3, 6} and auto_collect at random points, and "
        "*steering* allocated bytes to threshold-8 / threshold / threshold+8 and the buffered count to threshold / threshold+1 before a "
        "creation; (2) random interpreter histories of mode C15 with automatic collection on (collections start inside Cc::new with finalizers, "
        "cleaners, resurrection going on). evaluations = policy rounds + histories; a round is non-trivial iff at least one decision was "
        "observed at an exact boundary and the threshold both grew and shrank during it; a history iff a trigger decision fired; distinct = "
        "distinct (seed, round) / distinct operation lists.")
ASSUMPTIONS = COMMON_ASSUMPTIONS + [
    "the byte threshold is read through the verif-hooks accessor; its value on a fresh thread is taken as the initial value (a different default constant is not an alarm)",
    "the trigger condition is the documented one; creations issued while the configuration is borrowed are never generated",
]


def plan(ctx):
    p = "C15"
    steps = []
    def policy(features, profile, shards, rounds, tool="native", steps_n=400, timeout=900):
        out = []
        for i in range(shards):
            args = ["--mode", "C15", "--gen", "policy", "--seed", str(sd(ctx, "policy", features, profile, tool)), "--shard", str(i), "--rounds", str(rounds),
                    "--steps", str(steps_n), "--props", p, "--alloc", "track"]
            if tool == "miri":
                args += ["--no-state-hash"]
                out.append(ctx.step("miri-policy-%d" % i, "harness", "ccmon", args, features=features, tool="miri", timeout=timeout, crash_property=p, miri_flags="-Zmiri-ignore-leaks"))
            else:
                out.append(ctx.step("%s-policy-%s-%s-%d" % (tool, features.replace(",", "+"), profile, i), "harness", "ccmon", args, features=features, profile=profile, tool=tool, timeout=timeout, crash_property=p))
        return out
    if ctx.quick:
        steps += policy(FULL, "debug", 5, 150)
        steps += policy(FULL, "release", 4, 300)
        steps += policy("auto-collect", "debug", 1, 150)
        steps += policy(NOFIN, "debug", 1, 150)
        steps += native(ctx, p, "C15", FULL, "debug", 12000, 3)
        steps += native(ctx, p, "C15", NOFIN, "debug", 4000, 1)
        steps += policy(FULL, "debug", 4, 1, tool="miri", steps_n=90)
    else:
        for fs in (FULL, NOFIN, "auto-collect", "finalization,auto-collect", "auto-collect,weak-ptrs", "finalization,auto-collect,weak-ptrs"):
            for profile in ("debug", "release"):
                steps += policy(fs, profile, 6 if fs == FULL else 1, 3000, timeout=3000)
            steps += native(ctx, p, "C15", fs, "debug", 150000 if fs == FULL else 20000, 6 if fs == FULL else 1, timeout=3000)
        steps += policy(FULL, "release", 4, 200, tool="asan", timeout=3000)
        steps += policy(FULL, "debug", 16, 2, tool="miri", steps_n=150, timeout=2400)
    return steps


def floors(ctx, evaluations, distinct, counters, sets):
    return floor_msgs(counters, {"trigger_decisions": 50000, "trigger_fired": 1000, "decisions_at_bytes_eq_threshold": 50,
                                 "decisions_at_bytes_just_above_threshold": 50, "decisions_at_buffered_eq_threshold": 50,
                                 "decisions_at_buffered_eq_threshold_plus1": 50, "rounds_threshold_grew": 20, "rounds_threshold_shrank": 20})
