"""C07: see DESIGN.md section 3 C07 (fault enumeration)."""
from _ccmon import native, miri, evolve, floor_msgs, COMMON_ASSUMPTIONS, NOFIN, FINONLY, NONE
from driver import FULL, ALL_FEATURE_SETS

LEVEL = "fault_enumeration"
RULE = ("base histories: random short histories of mode C07 (10..45 operations, half with finalizer scripts, cycles, automatic collection in 40%) "
        "and the directed corpus. Each base history is first run without faults to count the invocations of every callback kind "
        "(trace before / between / after its fields, finalize, drop, cleaning action, new_cyclic closure); then it is re-run once per (kind, k) "
        "with a panic injected at exactly that invocation (all of them when the history has <= 600 fault points, a uniform sample otherwise; "
        "in a third of the runs of the 'double' steps a second fault is armed for the continuation). The panic must arrive at the API boundary "
        "with its payload, is_tracing() must be false and the collector idle afterwards; the rest of the history plus the epilogue "
        "(release everything, collect until quiet) runs with the safety oracles of C01 / C03 / C05 / C08 on (degraded mode: leaks are allowed). "
        "In addition the novelty-guided mutational generator (harness/src/evolve.rs) runs with one injected panic in a quarter of its executions. evaluations = runs (faulted + base); distinct = distinct (history, fault point) pairs; non-trivial iff the fault unwound out of a "
        "collector pass and the continuation's collections reclaimed at least one object.")
ASSUMPTIONS = COMMON_ASSUMPTIONS + ["a fault is a Rust panic raised by the payload callback itself (not aborts, not allocation failure)"]


def plan(ctx):
    p = "C07"
    steps = []
    if ctx.quick:
        steps += native(ctx, p, "C07", FULL, "debug", 600, 6, faults="single")
        steps += native(ctx, p, "C07", FULL, "release", 600, 4, faults="single")
        steps += native(ctx, p, "C07", FULL, "debug", 200, 2, faults="double", tag="dbl-")
        steps += native(ctx, p, "C07", FULL, "debug", 0, 2, faults="single", gen="directed")
        steps += native(ctx, p, "C07", NOFIN, "debug", 200, 1, faults="single")
        steps += native(ctx, p, "C07", FINONLY, "debug", 200, 1, faults="single")
        steps += native(ctx, p, "C07", NONE, "debug", 200, 1, faults="single")
        steps += evolve(ctx, p, "C07", FULL, "release", 12000, 3, faults="single")
        steps += evolve(ctx, p, "C07", FULL, "debug", 5000, 1, faults="single")
        steps += miri(ctx, p, "C07", FULL, 12, 12, faults="single", extra=["--max-fault-points", "3", "--max-ops", "18"])
    else:
        for fs in ALL_FEATURE_SETS:
            main = fs == FULL
            for profile in ("debug", "release"):
                steps += native(ctx, p, "C07", fs, profile, 12000 if main else 1500, 6 if main else 1, faults="single", timeout=3000)
            steps += native(ctx, p, "C07", fs, "debug", 0, 1, faults="single", gen="directed", timeout=3000)
        steps += native(ctx, p, "C07", FULL, "debug", 4000, 4, faults="double", tag="dbl-", timeout=3000)
        steps += evolve(ctx, p, "C07", FULL, "release", 200000, 12, faults="single", timeout=3000)
        steps += evolve(ctx, p, "C07", FULL, "debug", 60000, 4, faults="single", timeout=3000)
        steps += evolve(ctx, p, "C07", NOFIN, "release", 60000, 2, faults="single", timeout=3000)
        steps += evolve(ctx, p, "C07", FINONLY, "release", 60000, 2, faults="single", timeout=3000)
        steps += evolve(ctx, p, "C07", FULL, "release", 8000, 4, faults="single", tool="asan", alloc="track", timeout=3000)
        steps += native(ctx, p, "C07", FULL, "release", 600, 6, faults="single", tool="asan", alloc="track", timeout=3000)
        steps += native(ctx, p, "C07", FULL, "release", 40, 4, faults="single", tool="valgrind", alloc="track", timeout=3000)
        steps += native(ctx, p, "C07", FULL, "release", 0, 2, faults="single", gen="directed", tool="valgrind", alloc="track", timeout=3000)
        steps += miri(ctx, p, "C07", FULL, 64, 32, faults="single", extra=["--max-fault-points", "40"], timeout=2400)
        steps += miri(ctx, p, "C07", FULL, 0, 8, faults="single", gen="directed", extra=["--max-fault-points", "60"], timeout=2400)
    return steps


def floors(ctx, evaluations, distinct, counters, sets):
    msgs = floor_msgs(counters, {"fault_points_enumerated": 5000, "faults_unwound_out_of_collection": 500})
    # a fault point may be missed when the byte threshold carried over from earlier runs moves an automatic
    # collection (the re-run then has fewer invocations of that kind); tolerated up to 2%, reported in counters
    hit, enum = counters.get("fault_points_hit", 0), counters.get("fault_points_enumerated", 0)
    if hit < 0.98 * enum:
        msgs.append("fault_points_hit %d < 98%% of fault_points_enumerated %d" % (hit, enum))
    kinds = sets.get("fault_kinds_hit", set())
    for k in ("trace_pre", "trace_mid", "trace_post", "finalize", "drop", "action", "closure"):
        if k not in kinds:
            msgs.append("no fault of kind %s was hit" % k)
    return msgs
