"""Shared plan builder for the properties decided by the ccmon harness (graph histories)."""
import zlib
from driver import FULL, ALL_FEATURE_SETS

NOFIN = "auto-collect,weak-ptrs,cleaners"
FINONLY = "finalization"
NONE = ""
WEAK = "finalization,auto-collect,weak-ptrs"


import os

# VERIF_SCALE < 1 shrinks every workload of a plan (same steps, same feature sets, same tools, fewer histories): a smoke run of
# the thorough tier. Evidence of such a run says so through its floors (inconclusive), it is never committed as thorough evidence.
SCALE = float(os.environ.get("VERIF_SCALE", "1") or "1")


def scaled(n, lo=1):
    if SCALE >= 1 or n <= 0:
        return n
    return max(int(n * SCALE), lo)


def sd(ctx, *parts):
    return (ctx.seed * 1000003 + zlib.crc32("|".join(str(p) for p in parts).encode())) % (1 << 48)


def native(ctx, prop, mode, features, profile, count, shards, faults="none", gen="random", extra=(), timeout=900, tool="native", alloc="quarantine", tag=""):
    steps = []
    seed = sd(ctx, mode, features, profile, gen, faults, tool)
    count = scaled(count, 50 if faults == "none" else 10)
    for i in range(shards):
        args = ["--mode", mode, "--gen", gen, "--seed", str(seed), "--count", str(count), "--shard", str(i), "--nshards", str(shards),
                "--props", prop, "--alloc", alloc, "--faults", faults] + list(extra)
        name = "%s%s-%s-%s-%s-%s-%d" % (tag, tool, mode, gen, features.replace(",", "+") or "none", profile, i)
        steps.append(ctx.step(name, "harness", "ccmon", args, features=features, profile=profile, tool=tool, timeout=timeout, crash_property=prop))
    return steps


def miri(ctx, prop, mode, features, count, shards, faults="none", gen="random", extra=(), timeout=600, flags=""):
    steps = []
    seed = sd(ctx, mode, features, "miri", gen, faults)
    count = scaled(count, shards)
    for i in range(shards):
        # pass-through allocator (Miri judges the frees itself); no state hashing (slow under Miri)
        args = ["--mode", mode, "--gen", gen, "--seed", str(seed), "--count", str(count), "--shard", str(i), "--nshards", str(shards),
                "--props", prop, "--alloc", "track", "--faults", faults, "--no-state-hash", "--no-bulk", "--min-ops", "8", "--max-ops", "28"] + list(extra)
        name = "miri-%s-%s-%s-%d" % (mode, gen, features.replace(",", "+") or "none", i)
        steps.append(ctx.step(name, "harness", "ccmon", args, features=features, tool="miri", timeout=timeout, crash_property=prop,
                              miri_flags=("-Zmiri-ignore-leaks " + flags).strip()))
    return steps


def exhaust(ctx, prop, mode, features, profile, depth, shards, variant="weak", faults="none", max_runs=3000000, timeout=900, tool="native", alloc="quarantine"):
    """Small-scope exploration with novelty pruning (harness/src/exhaust.rs)."""
    steps = []
    max_runs = scaled(max_runs, 2000)
    for i in range(shards):
        args = ["--mode", mode, "--gen", "exhaust", "--depth", str(depth), "--variant", variant, "--shard", str(i), "--nshards", str(shards),
                "--props", prop, "--alloc", alloc, "--faults", faults, "--max-runs", str(max_runs)]
        if tool == "miri":
            args.append("--no-state-hash")
        name = "%s-exhaust%d-%s-%s-%s-%s-%d" % (tool, depth, mode, variant, features.replace(",", "+") or "none", profile, i)
        steps.append(ctx.step(name, "harness", "ccmon", args, features=features, profile=profile, tool=tool, timeout=timeout, crash_property=prop,
                              miri_flags="-Zmiri-ignore-leaks" if tool == "miri" else ""))
    return steps


def evolve(ctx, prop, mode, features, profile, count, shards, faults="none", extra=(), timeout=900, tool="native", alloc="quarantine"):
    """Novelty-guided mutational generator (harness/src/evolve.rs): corpus = directed histories + random seeds + every
    history that showed a behaviour feature not seen before; children by small edits; same oracles as everything else."""
    steps = []
    seed = sd(ctx, mode, features, profile, "evolve", faults, tool)
    count = scaled(count, 400)
    for i in range(shards):
        args = ["--mode", mode, "--gen", "evolve", "--seed", str(seed), "--count", str(count), "--shard", str(i), "--nshards", str(shards),
                "--props", prop, "--alloc", alloc, "--faults", faults] + list(extra)
        name = "%s-%s-evolve-%s-%s-%d" % (tool, mode, features.replace(",", "+") or "none", profile, i)
        steps.append(ctx.step(name, "harness", "ccmon", args, features=features, profile=profile, tool=tool, timeout=timeout, crash_property=prop))
    return steps


def standard_plan(ctx, prop, mode=None, faults="none", quick_n=40000, thorough_n=600000, miri_quick=(36, 12), miri_thorough=(640, 32),
                  need_weak=False, need_cleaners=False, need_fin=False, extra=(), extra_modes=(), after_faults=False):
    """Random histories over the feature sets / profiles, the directed corpus, Miri, and (thorough) ASan + memcheck."""
    mode = mode or prop
    steps = []
    def ok(fs):
        f = fs.split(",") if fs else []
        if need_cleaners and "cleaners" not in f:
            return False
        if need_weak and "weak-ptrs" not in f:
            return False
        if need_fin and "finalization" not in f:
            return False
        return True
    if ctx.quick:
        sets = [fs for fs in (FULL, NOFIN, FINONLY, NONE) if ok(fs)]
        for fs in sets:
            main = fs == FULL
            n = quick_n if main else max(quick_n // 4, 1000)
            steps += native(ctx, prop, mode, fs, "debug", n, 5 if main else 1, faults=faults, extra=extra)
            if main:
                steps += native(ctx, prop, mode, fs, "release", n, 4, faults=faults, extra=extra)
                steps += native(ctx, prop, mode, fs, "debug", 0, 1, faults=faults, gen="directed", extra=extra)
        for m in extra_modes:
            steps += native(ctx, prop, m, FULL, "debug", quick_n // 2, 2, extra=extra)
        if ok(FULL) and not extra:
            steps += exhaust(ctx, prop, mode, FULL, "debug", 5, 2, variant="cleaners" if need_cleaners else "weak", faults=faults)
        if ok(FULL):
            steps += evolve(ctx, prop, mode, FULL, "release", max(quick_n // 4, 6000), 3, faults=faults, extra=extra)
            steps += evolve(ctx, prop, mode, FULL, "debug", max(quick_n // 8, 3000), 1, faults=faults, extra=extra)
        if after_faults and ok(FULL) and faults == "none":
            # the property also speaks about programs that catch a panic of one of their callbacks: short histories, every
            # fault point (sampled above 60 per history), this property's oracles on the continuation (attributed to it)
            short = ["--min-ops", "10", "--max-ops", "40", "--max-fault-points", "60"]
            steps += native(ctx, prop, mode, FULL, "debug", 500, 2, faults="single", extra=list(extra) + short, tag="flt-")
            steps += native(ctx, prop, mode, FULL, "release", 500, 1, faults="single", extra=list(extra) + short, tag="flt-")
            steps += evolve(ctx, prop, mode, FULL, "release", 6000, 1, faults="single", extra=extra)
        if miri_quick:
            steps += miri(ctx, prop, mode, FULL, miri_quick[0], miri_quick[1], faults="none", extra=extra)
    else:
        sets = [fs for fs in ALL_FEATURE_SETS if ok(fs)]
        for fs in sets:
            main = fs == FULL
            n = thorough_n if main else thorough_n // 6
            for profile in ("debug", "release"):
                steps += native(ctx, prop, mode, fs, profile, n, 6 if main else 1, faults=faults, extra=extra, timeout=3000)
            steps += native(ctx, prop, mode, fs, "debug", 0, 1, faults=faults, gen="directed", extra=extra)
        for m in extra_modes:
            steps += native(ctx, prop, m, FULL, "debug", thorough_n // 4, 4, extra=extra, timeout=3000)
        if not extra:
            if ok(FULL):
                steps += exhaust(ctx, prop, mode, FULL, "release", 8 if faults == "none" else 5, 16, variant="cleaners" if need_cleaners else "weak", faults=faults, timeout=3000)
                steps += exhaust(ctx, prop, mode, FULL, "debug", 6 if faults == "none" else 4, 8, variant="cleaners", faults=faults, timeout=3000)
                steps += exhaust(ctx, prop, mode, FULL, "debug", 3, 4, variant="weak", tool="miri", alloc="track", timeout=2400)
            if ok(NONE):
                steps += exhaust(ctx, prop, mode, NONE, "debug", 7, 8, variant="noweak", faults=faults, timeout=3000)
            if ok(FINONLY):
                steps += exhaust(ctx, prop, mode, FINONLY, "release", 7, 8, variant="noweak", faults=faults, timeout=3000)
        if after_faults and ok(FULL) and faults == "none":
            short = ["--min-ops", "10", "--max-ops", "40", "--max-fault-points", "120"]
            for profile in ("debug", "release"):
                steps += native(ctx, prop, mode, FULL, profile, 8000, 4, faults="single", extra=list(extra) + short, tag="flt-", timeout=3000)
            steps += native(ctx, prop, mode, NOFIN, "debug", 4000, 1, faults="single", extra=list(extra) + short, tag="flt-", timeout=3000)
            steps += evolve(ctx, prop, mode, FULL, "release", 80000, 4, faults="single", extra=extra, timeout=3000)
        if ok(FULL):
            steps += evolve(ctx, prop, mode, FULL, "release", max(thorough_n // 4, 60000), 12, faults=faults, extra=extra, timeout=3000)
            steps += evolve(ctx, prop, mode, FULL, "debug", max(thorough_n // 10, 20000), 4, faults=faults, extra=extra, timeout=3000)
            steps += evolve(ctx, prop, mode, FULL, "release", max(thorough_n // 60, 4000), 4, faults=faults, tool="asan", alloc="track", extra=extra, timeout=3000)
        for fs in sets:
            if fs != FULL and fs in (NOFIN, FINONLY, NONE, WEAK):
                steps += evolve(ctx, prop, mode, fs, "release", max(thorough_n // 12, 20000), 2, faults=faults, extra=extra, timeout=3000)
        steps += native(ctx, prop, mode, FULL, "release", max(thorough_n // 30, 2000), 6, faults=faults, tool="asan", alloc="track", extra=extra, timeout=3000)
        steps += native(ctx, prop, mode, FULL, "release", max(thorough_n // 300, 300), 4, faults=faults, tool="valgrind", alloc="track", extra=extra, timeout=3000)
        steps += native(ctx, prop, mode, FULL, "release", 0, 1, faults=faults, gen="directed", tool="valgrind", alloc="track", extra=extra, timeout=3000)
        if miri_thorough:
            steps += miri(ctx, prop, mode, FULL, miri_thorough[0], miri_thorough[1], extra=extra, timeout=2400)
            steps += miri(ctx, prop, mode, FULL, 0, 4, gen="directed", extra=extra, timeout=2400)
    return steps



def layout_steps(ctx, prop, quick):
    """The 48-point size x alignment grid (harness/src/bin/layouts.rs): every creation / release path per layout."""
    from driver import FULL
    steps = []
    def one(features, profile, tool="native", shards=1, alloc="quarantine", timeout=900):
        out = []
        for i in range(shards):
            args = ["--props", prop, "--shard", str(i), "--nshards", str(shards), "--alloc", alloc]
            out.append(ctx.step("%s-layouts-%s-%s-%d" % (tool, features.replace(",", "+") or "none", profile, i), "harness", "layouts", args, features=features,
                                profile=profile, tool=tool, timeout=timeout, crash_property=prop, miri_flags="-Zmiri-ignore-leaks" if tool == "miri" else ""))
        return out
    if quick:
        steps += one(FULL, "debug") + one(FULL, "release") + one("weak-ptrs", "debug") + one("", "debug")
        steps += one(FULL, "debug", tool="miri", shards=8, alloc="track")
    else:
        for fs in (FULL, "finalization,weak-ptrs", "weak-ptrs", "auto-collect,weak-ptrs,cleaners", "finalization", ""):
            steps += one(fs, "debug") + one(fs, "release")
        steps += one(FULL, "release", tool="asan", alloc="track") + one(FULL, "release", tool="valgrind", alloc="track", shards=4, timeout=3000)
        steps += one(FULL, "debug", tool="miri", shards=16, alloc="track", timeout=2400)
    return steps


def floor_msgs(counters, reqs):
    out = []
    for k, v in reqs.items():
        if counters.get(k, 0) < v:
            out.append("%s = %d < %d" % (k, counters.get(k, 0), v))
    return out


FAULT_NOTE = ' Because the statement also covers programs that catch a panic raised by one of their own callbacks, short histories (10..40 operations) are additionally re-run once per callback invocation with a panic injected there (at most 60 / 120 points per history, quick / thorough); on the continuation the oracles of this property stay on in their post-fault form (leaks and skipped callbacks tolerated) and their hits are reported under this property.'

EVOLVE_NOTE = ' In addition the novelty-guided mutational generator (harness/src/evolve.rs) derives histories from a corpus (directed corpus + random seeds + every history that showed a new behaviour feature: callback nesting x operation / outcome, hidden-state classes of objects and edges) by small edits; they run under the same oracles and are counted the same way.'

COMMON_ASSUMPTIONS = [
    "the generated programs obey the Trace safety contract (trace impls trace exactly their traced slots; Drop impls touch no Cc)",
    "the shadow model (API-level holder multiset) and the instrumented global allocator are correct; both were run silent over millions of histories on the repaired tree and fire on the seeded mutants listed in DESIGN.md",
    "hooks (verif-hooks feature) are read-only; verdicts use them only where DESIGN.md 2.1 says so",
    "coverage is what the generators produced on this run (counts in coverage.counters); no claim beyond it",
]
